pub mod codecs;
pub mod evidence;
pub mod glue;
pub mod schema;
pub mod shape;
pub mod spec;

/// Enumerate all strings over `alpha` of length exactly `len`, calling f on each.
pub fn for_each_string(alpha: &[u8], len: usize, f: &mut dyn FnMut(&[u8])) {
    let mut idx = vec![0usize; len];
    let mut buf: Vec<u8> = vec![alpha.first().copied().unwrap_or(0); len];
    loop {
        f(&buf);
        // increment
        let mut i = len;
        loop {
            if i == 0 {
                return;
            }
            i -= 1;
            idx[i] += 1;
            if idx[i] < alpha.len() {
                buf[i] = alpha[idx[i]];
                break;
            }
            idx[i] = 0;
            buf[i] = alpha[0];
        }
    }
}

/// the k-th string (in enumeration order) over alpha with exactly `len` symbols
pub fn nth_string(alpha: &[u8], len: usize, mut k: u64) -> Vec<u8> {
    let mut out = vec![0u8; len];
    for i in (0..len).rev() {
        out[i] = alpha[(k % alpha.len() as u64) as usize];
        k /= alpha.len() as u64;
    }
    out
}

pub fn self_test_all() -> Result<(), String> {
    spec::self_test()?;
    codecs::cobs_self_test()?;
    codecs::crc_self_test()?;
    schema::fnv_self_test()?;
    Ok(())
}

pub fn hex(b: &[u8]) -> String {
    b.iter().map(|x| format!("{x:02x}")).collect::<Vec<_>>().join(" ")
}
