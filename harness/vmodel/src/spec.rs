//! Independent encoder/decoder written from spec/src/wire-format.md.
//! Arithmetic definitions (division / remainder on u128), not the implementation's bit tricks.

use crate::shape::{Shape, VShape, VVal, Val};

#[derive(Clone, Copy, Debug, PartialEq, Eq, Hash, PartialOrd, Ord, serde::Serialize)]
pub enum ErrKind {
    UnexpectedEnd,
    BadVarint,
    BadBool,
    BadOption,
    BadUtf8,
    BadChar,
    /// a rejection the property does not name (e.g. unknown variant index)
    Other,
}

#[derive(Clone, Copy, Debug, PartialEq, Eq, serde::Serialize)]
pub enum EncErr {
    LengthUnknown,
}

#[derive(Clone, Copy, Debug, PartialEq, Eq, serde::Serialize)]
pub enum Role {
    /// varint of given bit width (16/32/64/128) at [off, off+len)
    Varint(u32),
    /// a varint(usize) length prefix
    Len,
    /// varint(u32) discriminant
    Discr,
    /// a raw one-byte item (u8/i8/bool/option tag)
    Byte,
    /// bool byte
    BoolTag,
    OptionTag,
    /// raw payload (string bytes, byte array, floats)
    Payload,
}

#[derive(Clone, Debug, PartialEq, Eq, serde::Serialize)]
pub struct Segment {
    pub off: usize,
    pub len: usize,
    pub role: Role,
}

/// LEB128 by division/remainder
pub fn varint(mut n: u128) -> Vec<u8> {
    let mut out = vec![];
    loop {
        let group = (n % 128) as u8;
        n /= 128;
        if n == 0 {
            out.push(group);
            return out;
        }
        out.push(group + 128);
    }
}

pub fn varint_len(n: u128) -> usize {
    varint(n).len()
}

/// non-canonical varint: `n` padded to exactly `len` bytes (len >= minimal)
pub fn varint_padded(n: u128, len: usize) -> Option<Vec<u8>> {
    let mut v = varint(n);
    if len < v.len() {
        return None;
    }
    while v.len() < len {
        let last = v.len() - 1;
        v[last] += 128;
        v.push(0);
    }
    Some(v)
}

/// zig-zag by the arithmetic definition: n >= 0 -> 2n ; n < 0 -> 2*(-(n+1)) + 1
pub fn zigzag(n: i128) -> u128 {
    if n >= 0 {
        2 * (n as u128)
    } else {
        2 * ((-(n + 1)) as u128) + 1
    }
}

pub fn unzigzag(u: u128) -> i128 {
    if u % 2 == 0 {
        (u / 2) as i128
    } else {
        -((u / 2) as i128) - 1
    }
}

pub fn max_varint_len(bits: u32) -> usize {
    ((bits + 6) / 7) as usize
}

pub fn max_last_byte(bits: u32) -> u8 {
    // number of value bits carried by the last group of a maximal-length varint
    let extra = bits % 7;
    ((1u32 << extra) - 1) as u8
}

pub struct Enc {
    pub out: Vec<u8>,
    pub segs: Vec<Segment>,
}

impl Enc {
    fn put(&mut self, bytes: &[u8], role: Role) {
        self.segs.push(Segment { off: self.out.len(), len: bytes.len(), role });
        self.out.extend_from_slice(bytes);
    }
    fn list(&mut self, l: &[Val]) -> Result<(), EncErr> {
        for x in l {
            self.val(x)?;
        }
        Ok(())
    }
    pub fn val(&mut self, v: &Val) -> Result<(), EncErr> {
        match v {
            Val::Bool(b) => self.put(&[if *b { 1 } else { 0 }], Role::BoolTag),
            Val::U8(x) => self.put(&[*x], Role::Byte),
            Val::I8(x) => self.put(&[if *x >= 0 { *x as u8 } else { (256 + *x as i32) as u8 }], Role::Byte),
            Val::U16(x) => self.put(&varint(*x as u128), Role::Varint(16)),
            Val::U32(x) => self.put(&varint(*x as u128), Role::Varint(32)),
            Val::U64(x) => self.put(&varint(*x as u128), Role::Varint(64)),
            Val::U128(x) => self.put(&varint(*x), Role::Varint(128)),
            Val::I16(x) => self.put(&varint(zigzag(*x as i128)), Role::Varint(16)),
            Val::I32(x) => self.put(&varint(zigzag(*x as i128)), Role::Varint(32)),
            Val::I64(x) => self.put(&varint(zigzag(*x as i128)), Role::Varint(64)),
            Val::I128(x) => self.put(&varint(zigzag(*x)), Role::Varint(128)),
            Val::F32(bits) => {
                let b = [
                    (*bits % 256) as u8,
                    (*bits / 256 % 256) as u8,
                    (*bits / 65536 % 256) as u8,
                    (*bits / 16777216) as u8,
                ];
                self.put(&b, Role::Payload)
            }
            Val::F64(bits) => {
                let mut b = [0u8; 8];
                let mut n = *bits;
                for x in b.iter_mut() {
                    *x = (n % 256) as u8;
                    n /= 256;
                }
                self.put(&b, Role::Payload)
            }
            Val::Char(c) => {
                let s = c.to_string();
                self.put(&varint(s.len() as u128), Role::Len);
                self.put(s.as_bytes(), Role::Payload)
            }
            Val::Str(s) => {
                self.put(&varint(s.len() as u128), Role::Len);
                self.put(s.as_bytes(), Role::Payload)
            }
            Val::Display(frags) => {
                let s: String = frags.concat();
                self.put(&varint(s.len() as u128), Role::Len);
                self.put(s.as_bytes(), Role::Payload)
            }
            Val::DisplayChars(t) => {
                self.put(&varint(t.len() as u128), Role::Len);
                self.put(t.as_bytes(), Role::Payload)
            }
            Val::Bytes(b) => {
                self.put(&varint(b.len() as u128), Role::Len);
                self.put(b, Role::Payload)
            }
            Val::None => self.put(&[0], Role::OptionTag),
            Val::Some(x) => {
                self.put(&[1], Role::OptionTag);
                self.val(x)?
            }
            Val::Unit | Val::UnitStruct => {}
            Val::NewtypeStruct(x) => self.val(x)?,
            Val::Seq(l) => {
                self.put(&varint(l.len() as u128), Role::Len);
                self.list(l)?
            }
            Val::Tuple(l) | Val::TupleStruct(l) | Val::Struct(l) => self.list(l)?,
            Val::Map(es) => {
                self.put(&varint(es.len() as u128), Role::Len);
                for (k, v) in es {
                    self.val(k)?;
                    self.val(v)?;
                }
            }
            Val::Variant { idx, data, .. } => {
                self.put(&varint(*idx as u128), Role::Discr);
                match data {
                    VVal::Unit => {}
                    VVal::Newtype(x) => self.val(x)?,
                    VVal::Tuple(l) | VVal::Struct(l) => self.list(l)?,
                }
            }
            Val::SeqNoLen(_) | Val::MapNoLen(_) => return Err(EncErr::LengthUnknown),
        }
        Ok(())
    }
}

pub fn spec_encode(v: &Val) -> Result<Vec<u8>, EncErr> {
    let mut e = Enc { out: vec![], segs: vec![] };
    e.val(v)?;
    Ok(e.out)
}

pub fn spec_encode_segs(v: &Val) -> Result<(Vec<u8>, Vec<Segment>), EncErr> {
    let mut e = Enc { out: vec![], segs: vec![] };
    e.val(v)?;
    Ok((e.out, e.segs))
}

// ---------------------------------------------------------------------------------------------
// decoder
// ---------------------------------------------------------------------------------------------

#[derive(Clone, Debug, PartialEq, Eq)]
pub struct Take {
    pub off: usize,
    pub len: usize,
    /// true when the take is a borrowed str/bytes in the result (as opposed to float/char scratch)
    pub borrowed: bool,
}

pub struct Dec<'a> {
    pub input: &'a [u8],
    pub pos: usize,
    pub takes: Vec<Take>,
    /// largest claimed element count of a sequence/map whose elements are zero-width
    pub max_zero_width_claim: u128,
    /// sum of the claimed element counts of all zero-width sequences/maps met
    pub total_zero_width_claim: u128,
    /// largest claimed length (of anything)
    pub max_claim: u128,
    /// the element budget: abort with Other when more than this many elements would be materialised
    pub elem_budget: u64,
    pub budget_exceeded: bool,
    /// claimed counts of zero-width elements above this are not materialised
    pub zero_width_limit: u128,
}

impl<'a> Dec<'a> {
    pub fn new(input: &'a [u8]) -> Self {
        Dec {
            input,
            pos: 0,
            takes: vec![],
            max_zero_width_claim: 0,
            total_zero_width_claim: 0,
            max_claim: 0,
            elem_budget: 1 << 16,
            budget_exceeded: false,
            zero_width_limit: 4096,
        }
    }
    fn pop(&mut self) -> Result<u8, ErrKind> {
        if self.pos >= self.input.len() {
            return Err(ErrKind::UnexpectedEnd);
        }
        let b = self.input[self.pos];
        self.pos += 1;
        Ok(b)
    }
    fn take(&mut self, n: u128, borrowed: bool) -> Result<&'a [u8], ErrKind> {
        let remain = (self.input.len() - self.pos) as u128;
        if n > remain {
            return Err(ErrKind::UnexpectedEnd);
        }
        let n = n as usize;
        let s = &self.input[self.pos..self.pos + n];
        self.takes.push(Take { off: self.pos, len: n, borrowed });
        self.pos += n;
        Ok(s)
    }
    /// Read a varint for an integer of `bits` bits.
    /// Rules (wire-format.md, "Varint encoded integers" + "Maximum encoded length" + canonicalization):
    /// at most ceil(bits/7) bytes; the value must fit in `bits` bits; padded forms within the
    /// maximum length are accepted.
    pub fn varint(&mut self, bits: u32) -> Result<u128, ErrKind> {
        let maxlen = max_varint_len(bits);
        let mut value: u128 = 0;
        let mut weight: u128 = 1; // 128^i
        for i in 0..maxlen {
            let b = self.pop()?;
            let group = (b % 128) as u128;
            let cont = b >= 128;
            if !cont {
                if i == maxlen - 1 && b > max_last_byte(bits) {
                    return Err(ErrKind::BadVarint);
                }
                return Ok(value + group * weight);
            }
            if i == maxlen - 1 {
                // continuation bit on the last permitted byte: too long
                return Err(ErrKind::BadVarint);
            }
            value += group * weight;
            weight = weight.wrapping_mul(128);
        }
        Err(ErrKind::BadVarint)
    }
    fn charge(&mut self, n: u64) -> Result<(), ErrKind> {
        if self.elem_budget < n {
            self.budget_exceeded = true;
            return Err(ErrKind::Other);
        }
        self.elem_budget -= n;
        Ok(())
    }
    fn list(&mut self, l: &[Shape]) -> Result<Vec<Val>, ErrKind> {
        let mut out = Vec::with_capacity(l.len());
        for s in l {
            out.push(self.val(s)?);
        }
        Ok(out)
    }
    pub fn val(&mut self, s: &Shape) -> Result<Val, ErrKind> {
        use Shape as S;
        Ok(match s {
            S::Bool => match self.pop()? {
                0 => Val::Bool(false),
                1 => Val::Bool(true),
                _ => return Err(ErrKind::BadBool),
            },
            S::U8 => Val::U8(self.pop()?),
            S::I8 => {
                let b = self.pop()? as i32;
                Val::I8(if b < 128 { b as i8 } else { (b - 256) as i8 })
            }
            S::U16 => Val::U16(self.varint(16)? as u16),
            S::U32 => Val::U32(self.varint(32)? as u32),
            S::U64 => Val::U64(self.varint(64)? as u64),
            S::U128 => Val::U128(self.varint(128)?),
            S::I16 => Val::I16(unzigzag(self.varint(16)?) as i16),
            S::I32 => Val::I32(unzigzag(self.varint(32)?) as i32),
            S::I64 => Val::I64(unzigzag(self.varint(64)?) as i64),
            S::I128 => Val::I128(unzigzag(self.varint(128)?)),
            S::F32 => {
                let b = self.take(4, false)?;
                let mut n: u32 = 0;
                for i in (0..4).rev() {
                    n = n * 256 + b[i] as u32;
                }
                Val::F32(n)
            }
            S::F64 => {
                let b = self.take(8, false)?;
                let mut n: u64 = 0;
                for i in (0..8).rev() {
                    n = n * 256 + b[i] as u64;
                }
                Val::F64(n)
            }
            S::Char => {
                let n = self.varint(64)?;
                self.max_claim = self.max_claim.max(n);
                if n > 4 {
                    return Err(ErrKind::BadChar);
                }
                let b = self.take(n, false)?;
                let st = std::str::from_utf8(b).map_err(|_| ErrKind::BadChar)?;
                let mut it = st.chars();
                match (it.next(), it.next()) {
                    (Some(c), None) => Val::Char(c),
                    _ => return Err(ErrKind::BadChar),
                }
            }
            S::Str => {
                let n = self.varint(64)?;
                self.max_claim = self.max_claim.max(n);
                let b = self.take(n, true)?;
                Val::Str(std::str::from_utf8(b).map_err(|_| ErrKind::BadUtf8)?.to_string())
            }
            S::Bytes => {
                let n = self.varint(64)?;
                self.max_claim = self.max_claim.max(n);
                let b = self.take(n, true)?;
                Val::Bytes(b.to_vec())
            }
            S::Option(i) => match self.pop()? {
                0 => Val::None,
                1 => Val::Some(Box::new(self.val(i)?)),
                _ => return Err(ErrKind::BadOption),
            },
            S::Unit => Val::Unit,
            S::UnitStruct => Val::UnitStruct,
            S::NewtypeStruct(i) => Val::NewtypeStruct(Box::new(self.val(i)?)),
            S::Seq(e) => {
                let n = self.varint(64)?;
                self.max_claim = self.max_claim.max(n);
                if e.min_width() == 0 {
                    self.max_zero_width_claim = self.max_zero_width_claim.max(n);
                    self.total_zero_width_claim = self.total_zero_width_claim.saturating_add(n);
                    if n > self.zero_width_limit {
                        self.budget_exceeded = true;
                        return Err(ErrKind::Other);
                    }
                }
                let mut out = vec![];
                let mut i: u128 = 0;
                while i < n {
                    self.charge(1)?;
                    out.push(self.val(e)?);
                    i += 1;
                }
                Val::Seq(out)
            }
            S::Map(k, v) => {
                let n = self.varint(64)?;
                self.max_claim = self.max_claim.max(n);
                if k.min_width() + v.min_width() == 0 {
                    self.max_zero_width_claim = self.max_zero_width_claim.max(n);
                    self.total_zero_width_claim = self.total_zero_width_claim.saturating_add(n);
                    if n > self.zero_width_limit {
                        self.budget_exceeded = true;
                        return Err(ErrKind::Other);
                    }
                }
                let mut out = vec![];
                let mut i: u128 = 0;
                while i < n {
                    self.charge(1)?;
                    let kk = self.val(k)?;
                    let vv = self.val(v)?;
                    out.push((kk, vv));
                    i += 1;
                }
                Val::Map(out)
            }
            S::Tuple(l) => Val::Tuple(self.list(l)?),
            S::TupleStruct(l) => Val::TupleStruct(self.list(l)?),
            S::Struct(l) => Val::Struct(self.list(l)?),
            S::Enum(vs) => {
                let idx = self.varint(32)? as u32;
                let pos = match vs.iter().position(|(i, _)| *i == idx) {
                    Some(p) => p,
                    None => return Err(ErrKind::Other),
                };
                let data = match &vs[pos].1 {
                    VShape::Unit => VVal::Unit,
                    VShape::Newtype(s) => VVal::Newtype(Box::new(self.val(s)?)),
                    VShape::Tuple(l) => VVal::Tuple(self.list(l)?),
                    VShape::Struct(l) => VVal::Struct(self.list(l)?),
                };
                Val::Variant { pos, idx, data }
            }
        })
    }
}

#[derive(Debug, Clone)]
pub struct DecOut {
    pub result: Result<(Val, usize), ErrKind>,
    pub takes: Vec<Take>,
    pub max_zero_width_claim: u128,
    pub total_zero_width_claim: u128,
    pub max_claim: u128,
    pub budget_exceeded: bool,
}

pub fn spec_decode(s: &Shape, input: &[u8]) -> DecOut {
    let mut d = Dec::new(input);
    let r = d.val(s);
    DecOut {
        result: r.map(|v| (v, d.pos)),
        takes: d.takes,
        max_zero_width_claim: d.max_zero_width_claim,
        total_zero_width_claim: d.total_zero_width_claim,
        max_claim: d.max_claim,
        budget_exceeded: d.budget_exceeded,
    }
}

/// Self-test: the worked examples of wire-format.md.
pub fn self_test() -> Result<(), String> {
    fn chk(name: &str, got: Vec<u8>, want: &[u8]) -> Result<(), String> {
        if got != want {
            return Err(format!("spec self-test {name}: got {got:02x?} want {want:02x?}"));
        }
        Ok(())
    }
    // varint u16 examples
    chk("u16 0", spec_encode(&Val::U16(0)).unwrap(), &[0x00])?;
    chk("u16 127", spec_encode(&Val::U16(127)).unwrap(), &[0x7F])?;
    chk("u16 128", spec_encode(&Val::U16(128)).unwrap(), &[0x80, 0x01])?;
    chk("u16 16383", spec_encode(&Val::U16(16383)).unwrap(), &[0xFF, 0x7F])?;
    chk("u16 16384", spec_encode(&Val::U16(16384)).unwrap(), &[0x80, 0x80, 0x01])?;
    chk("u16 16385", spec_encode(&Val::U16(16385)).unwrap(), &[0x81, 0x80, 0x01])?;
    chk("u16 65535", spec_encode(&Val::U16(65535)).unwrap(), &[0xFF, 0xFF, 0x03])?;
    // zig-zag i16 examples
    chk("i16 0", spec_encode(&Val::I16(0)).unwrap(), &[0x00])?;
    chk("i16 -1", spec_encode(&Val::I16(-1)).unwrap(), &[0x01])?;
    chk("i16 1", spec_encode(&Val::I16(1)).unwrap(), &[0x02])?;
    chk("i16 63", spec_encode(&Val::I16(63)).unwrap(), &[0x7E])?;
    chk("i16 -64", spec_encode(&Val::I16(-64)).unwrap(), &[0x7F])?;
    chk("i16 64", spec_encode(&Val::I16(64)).unwrap(), &[0x80, 0x01])?;
    chk("i16 -65", spec_encode(&Val::I16(-65)).unwrap(), &[0x81, 0x01])?;
    chk("i16 32767", spec_encode(&Val::I16(32767)).unwrap(), &[0xFE, 0xFF, 0x03])?;
    chk("i16 -32768", spec_encode(&Val::I16(-32768)).unwrap(), &[0xFF, 0xFF, 0x03])?;
    // floats
    chk("f32 -32.005859375", spec_encode(&Val::F32((-32.005859375f32).to_bits())).unwrap(), &[0x00, 0x06, 0x00, 0xc2])?;
    chk(
        "f64 -32.005859375",
        spec_encode(&Val::F64((-32.005859375f64).to_bits())).unwrap(),
        &[0x00, 0x00, 0x00, 0x00, 0xc0, 0x00, 0x40, 0xc0],
    )?;
    // max lengths / last byte
    for (bits, len, last) in [(16u32, 3usize, 3u8), (32, 5, 15), (64, 10, 1), (128, 19, 3)] {
        if max_varint_len(bits) != len || max_last_byte(bits) != last {
            return Err(format!("spec self-test varint limits for {bits}"));
        }
    }
    // canonicalisation table: 0x80 0x00 decodes as 0 for u16
    let d = spec_decode(&Shape::U16, &[0x80, 0x00]);
    if d.result != Ok((Val::U16(0), 2)) {
        return Err("spec self-test padded zero".into());
    }
    let d = spec_decode(&Shape::U16, &[0xFF, 0xFF, 0x04]);
    if d.result != Err(ErrKind::BadVarint) {
        return Err("spec self-test over-range u16".into());
    }
    // zig-zag inverse over all i16
    for x in i16::MIN..=i16::MAX {
        if unzigzag(zigzag(x as i128)) != x as i128 || zigzag(x as i128) > 65535 {
            return Err("zigzag".into());
        }
    }
    Ok(())
}
