//! Schema-tree AST (harness side), its enumeration T(k), the documented tag stream and FNV-1a.

use serde::{Deserialize, Serialize};

#[derive(Clone, Debug, PartialEq, Eq, Hash, PartialOrd, Ord, Serialize, Deserialize)]
pub enum St {
    Bool,
    I8,
    U8,
    I16,
    I32,
    I64,
    I128,
    U16,
    U32,
    U64,
    U128,
    Usize,
    Isize,
    F32,
    F64,
    Char,
    String,
    ByteArray,
    Option(Box<St>),
    Unit,
    Seq(Box<St>),
    Tuple(Vec<St>),
    Map(Box<St>, Box<St>),
    Struct(String, Sd),
    Enum(String, Vec<(String, Sd)>),
    Schema,
}

#[derive(Clone, Debug, PartialEq, Eq, Hash, PartialOrd, Ord, Serialize, Deserialize)]
pub enum Sd {
    Unit,
    Newtype(Box<St>),
    Tuple(Vec<St>),
    Struct(Vec<(String, St)>),
}

pub const PRIM_KINDS: [St; 20] = [
    St::Bool,
    St::I8,
    St::U8,
    St::I16,
    St::I32,
    St::I64,
    St::I128,
    St::U16,
    St::U32,
    St::U64,
    St::U128,
    St::Usize,
    St::Isize,
    St::F32,
    St::F64,
    St::Char,
    St::String,
    St::ByteArray,
    St::Unit,
    St::Schema,
];

impl St {
    pub fn nodes(&self) -> usize {
        match self {
            St::Option(i) | St::Seq(i) => 1 + i.nodes(),
            St::Tuple(l) => 1 + l.iter().map(|s| s.nodes()).sum::<usize>(),
            St::Map(k, v) => 1 + k.nodes() + v.nodes(),
            St::Struct(_, d) => d.nodes(),
            St::Enum(_, vs) => 1 + vs.iter().map(|(_, d)| d.nodes()).sum::<usize>(),
            _ => 1,
        }
    }
    pub fn kind_name(&self) -> &'static str {
        match self {
            St::Bool => "Bool",
            St::I8 => "I8",
            St::U8 => "U8",
            St::I16 => "I16",
            St::I32 => "I32",
            St::I64 => "I64",
            St::I128 => "I128",
            St::U16 => "U16",
            St::U32 => "U32",
            St::U64 => "U64",
            St::U128 => "U128",
            St::Usize => "Usize",
            St::Isize => "Isize",
            St::F32 => "F32",
            St::F64 => "F64",
            St::Char => "Char",
            St::String => "String",
            St::ByteArray => "ByteArray",
            St::Option(_) => "Option",
            St::Unit => "Unit",
            St::Seq(_) => "Seq",
            St::Tuple(_) => "Tuple",
            St::Map(_, _) => "Map",
            St::Struct(_, _) => "Struct",
            St::Enum(_, _) => "Enum",
            St::Schema => "Schema",
        }
    }
    /// every sub-tree (the tree itself and every nested St), pre-order, with duplicates
    pub fn subtrees<'a>(&'a self, out: &mut Vec<&'a St>) {
        out.push(self);
        match self {
            St::Option(i) | St::Seq(i) => i.subtrees(out),
            St::Tuple(l) => l.iter().for_each(|s| s.subtrees(out)),
            St::Map(k, v) => {
                k.subtrees(out);
                v.subtrees(out)
            }
            St::Struct(_, d) => d.subtrees(out),
            St::Enum(_, vs) => vs.iter().for_each(|(_, d)| d.subtrees(out)),
            _ => {}
        }
    }
    pub fn contains_kind(&self, k: &str) -> bool {
        let mut v = vec![];
        self.subtrees(&mut v);
        v.iter().any(|s| s.kind_name() == k)
    }
}

impl Sd {
    /// a Struct node costs 1 (for the struct) + its fields
    pub fn nodes(&self) -> usize {
        match self {
            Sd::Unit => 1,
            Sd::Newtype(i) => 1 + i.nodes(),
            Sd::Tuple(l) => 1 + l.iter().map(|s| s.nodes()).sum::<usize>(),
            Sd::Struct(l) => 1 + l.iter().map(|(_, s)| s.nodes()).sum::<usize>(),
        }
    }
    pub fn subtrees<'a>(&'a self, out: &mut Vec<&'a St>) {
        match self {
            Sd::Unit => {}
            Sd::Newtype(i) => i.subtrees(out),
            Sd::Tuple(l) => l.iter().for_each(|s| s.subtrees(out)),
            Sd::Struct(l) => l.iter().for_each(|(_, s)| s.subtrees(out)),
        }
    }
    pub fn data_kind(&self) -> &'static str {
        match self {
            Sd::Unit => "Unit",
            Sd::Newtype(_) => "Newtype",
            Sd::Tuple(_) => "Tuple",
            Sd::Struct(_) => "Struct",
        }
    }
}

fn compositions(total: usize, parts: usize) -> Vec<Vec<usize>> {
    if parts == 0 {
        return if total == 0 { vec![vec![]] } else { vec![] };
    }
    if total < parts {
        return vec![];
    }
    if parts == 1 {
        return vec![vec![total]];
    }
    let mut out = vec![];
    for first in 1..=(total - (parts - 1)) {
        for mut rest in compositions(total - first, parts - 1) {
            let mut v = vec![first];
            v.append(&mut rest);
            out.push(v);
        }
    }
    out
}

pub const DEFAULT_FIELD_NAMES: [&str; 4] = ["a", "b", "c", "d"];
pub const DEFAULT_VARIANT_NAMES: [&str; 4] = ["A", "B", "C", "D"];
pub const NAME_SET: [&str; 5] = ["", "a", "é", "ab", "r#a"];

pub struct SchemaEnum {
    exact: Vec<Vec<St>>,
    dexact: Vec<Vec<Sd>>,
    max_list: usize,
}

impl SchemaEnum {
    pub fn new(k: usize, max_list: usize) -> Self {
        let mut me = SchemaEnum { exact: vec![vec![]], dexact: vec![vec![]], max_list };
        for n in 1..=k {
            // data of size n uses St of size < n
            let d = me.build_dexact(n);
            me.dexact.push(d);
            let s = me.build_exact(n);
            me.exact.push(s);
        }
        me
    }
    fn lists(&self, total: usize, min_len: usize, max_len: usize) -> Vec<Vec<St>> {
        let mut out = vec![];
        for len in min_len..=max_len {
            for comp in compositions(total, len) {
                let mut acc: Vec<Vec<St>> = vec![vec![]];
                for c in comp {
                    let mut next = vec![];
                    for pre in &acc {
                        for s in &self.exact[c] {
                            let mut p = pre.clone();
                            p.push(s.clone());
                            next.push(p);
                        }
                    }
                    acc = next;
                }
                out.extend(acc);
            }
        }
        out
    }
    fn build_dexact(&self, n: usize) -> Vec<Sd> {
        let mut out = vec![];
        if n == 1 {
            return vec![Sd::Unit, Sd::Tuple(vec![]), Sd::Struct(vec![])];
        }
        for s in &self.exact[n - 1] {
            out.push(Sd::Newtype(Box::new(s.clone())));
        }
        for l in self.lists(n - 1, 1, self.max_list) {
            out.push(Sd::Tuple(l.clone()));
            out.push(Sd::Struct(
                l.into_iter().enumerate().map(|(i, s)| (DEFAULT_FIELD_NAMES[i].to_string(), s)).collect(),
            ));
        }
        out
    }
    fn build_exact(&self, n: usize) -> Vec<St> {
        let mut out = vec![];
        if n == 1 {
            out.extend(PRIM_KINDS.iter().cloned());
            out.push(St::Tuple(vec![]));
            out.push(St::Enum("E".into(), vec![]));
        } else {
            for s in &self.exact[n - 1] {
                out.push(St::Option(Box::new(s.clone())));
                out.push(St::Seq(Box::new(s.clone())));
            }
            for comp in compositions(n - 1, 2) {
                for k in &self.exact[comp[0]] {
                    for v in &self.exact[comp[1]] {
                        out.push(St::Map(Box::new(k.clone()), Box::new(v.clone())));
                    }
                }
            }
            for l in self.lists(n - 1, 1, self.max_list) {
                out.push(St::Tuple(l));
            }
            // enums with 1..2 variants
            for d in &self.dexact[n - 1] {
                out.push(St::Enum("E".into(), vec![(DEFAULT_VARIANT_NAMES[0].into(), d.clone())]));
            }
            for comp in compositions(n - 1, 2) {
                for a in &self.dexact[comp[0]] {
                    for b in &self.dexact[comp[1]] {
                        out.push(St::Enum(
                            "E".into(),
                            vec![(DEFAULT_VARIANT_NAMES[0].into(), a.clone()), (DEFAULT_VARIANT_NAMES[1].into(), b.clone())],
                        ));
                    }
                }
            }
        }
        // structs: data of exactly n nodes (the struct node itself is the data node)
        for d in &self.dexact[n] {
            out.push(St::Struct("S".into(), d.clone()));
        }
        out
    }
    pub fn exact(&self, n: usize) -> &[St] {
        &self.exact[n]
    }
    pub fn upto(&self, k: usize) -> Vec<St> {
        let mut v = vec![];
        for n in 1..=k {
            v.extend(self.exact[n].iter().cloned());
        }
        v
    }
}

/// Every named position of the tree (type names, field names, variant names), as mutators.
/// Returns all trees obtained by replacing ONE name by another name from `names`.
/// kind: 0 = type name, 1 = field name, 2 = variant name
pub fn name_variations(t: &St, names: &[&str]) -> Vec<(u8, St)> {
    let mut out = vec![];
    fn rec(t: &St, names: &[&str], rebuild: &dyn Fn(St) -> St, out: &mut Vec<(u8, St)>) {
        match t {
            St::Option(i) => rec(i, names, &|x| rebuild(St::Option(Box::new(x))), out),
            St::Seq(i) => rec(i, names, &|x| rebuild(St::Seq(Box::new(x))), out),
            St::Tuple(l) => {
                for (i, c) in l.iter().enumerate() {
                    rec(
                        c,
                        names,
                        &|x| {
                            let mut nl = l.clone();
                            nl[i] = x;
                            rebuild(St::Tuple(nl))
                        },
                        out,
                    );
                }
            }
            St::Map(k, v) => {
                rec(k, names, &|x| rebuild(St::Map(Box::new(x), v.clone())), out);
                rec(v, names, &|x| rebuild(St::Map(k.clone(), Box::new(x))), out);
            }
            St::Struct(name, d) => {
                for n in names {
                    if *n != name {
                        out.push((0, rebuild(St::Struct(n.to_string(), d.clone()))));
                    }
                }
                rec_data(d, names, &|nd| rebuild(St::Struct(name.clone(), nd)), out);
            }
            St::Enum(name, vs) => {
                for n in names {
                    if *n != name {
                        out.push((0, rebuild(St::Enum(n.to_string(), vs.clone()))));
                    }
                }
                for (i, (vn, d)) in vs.iter().enumerate() {
                    for n in names {
                        if *n != vn {
                            let mut nv = vs.clone();
                            nv[i].0 = n.to_string();
                            out.push((2, rebuild(St::Enum(name.clone(), nv))));
                        }
                    }
                    rec_data(
                        d,
                        names,
                        &|nd| {
                            let mut nv = vs.clone();
                            nv[i].1 = nd;
                            rebuild(St::Enum(name.clone(), nv))
                        },
                        out,
                    );
                }
            }
            _ => {}
        }
    }
    fn rec_data(d: &Sd, names: &[&str], rebuild: &dyn Fn(Sd) -> St, out: &mut Vec<(u8, St)>) {
        match d {
            Sd::Unit => {}
            Sd::Newtype(i) => rec(i, names, &|x| rebuild(Sd::Newtype(Box::new(x))), out),
            Sd::Tuple(l) => {
                for (i, c) in l.iter().enumerate() {
                    rec(
                        c,
                        names,
                        &|x| {
                            let mut nl = l.clone();
                            nl[i] = x;
                            rebuild(Sd::Tuple(nl))
                        },
                        out,
                    );
                }
            }
            Sd::Struct(l) => {
                for (i, (fname, c)) in l.iter().enumerate() {
                    for n in names {
                        if *n != fname {
                            let mut nl = l.clone();
                            nl[i].0 = n.to_string();
                            out.push((1, rebuild(Sd::Struct(nl))));
                        }
                    }
                    rec(
                        c,
                        names,
                        &|x| {
                            let mut nl = l.clone();
                            nl[i].1 = x;
                            rebuild(Sd::Struct(nl))
                        },
                        out,
                    );
                }
            }
        }
    }
    rec(t, names, &|x| x, &mut out);
    out
}

/// Every single-node KIND mutation (replace a primitive leaf by every other primitive kind;
/// swap adjacent unequal children of tuples / struct fields / variants; Option<->Seq).
pub fn kind_mutations(t: &St) -> Vec<St> {
    let mut out = vec![];
    fn rec(t: &St, rebuild: &dyn Fn(St) -> St, out: &mut Vec<St>) {
        let is_prim = PRIM_KINDS.contains(t);
        if is_prim {
            for p in PRIM_KINDS.iter() {
                if p != t {
                    out.push(rebuild(p.clone()));
                }
            }
        }
        match t {
            St::Option(i) => {
                out.push(rebuild(St::Seq(i.clone())));
                rec(i, &|x| rebuild(St::Option(Box::new(x))), out)
            }
            St::Seq(i) => {
                out.push(rebuild(St::Option(i.clone())));
                rec(i, &|x| rebuild(St::Seq(Box::new(x))), out)
            }
            St::Tuple(l) => {
                for i in 0..l.len().saturating_sub(1) {
                    if l[i] != l[i + 1] {
                        let mut nl = l.clone();
                        nl.swap(i, i + 1);
                        out.push(rebuild(St::Tuple(nl)));
                    }
                }
                for (i, c) in l.iter().enumerate() {
                    rec(
                        c,
                        &|x| {
                            let mut nl = l.clone();
                            nl[i] = x;
                            rebuild(St::Tuple(nl))
                        },
                        out,
                    );
                }
            }
            St::Map(k, v) => {
                if k != v {
                    out.push(rebuild(St::Map(v.clone(), k.clone())));
                }
                rec(k, &|x| rebuild(St::Map(Box::new(x), v.clone())), out);
                rec(v, &|x| rebuild(St::Map(k.clone(), Box::new(x))), out);
            }
            St::Struct(name, d) => rec_data(d, &|nd| rebuild(St::Struct(name.clone(), nd)), out),
            St::Enum(name, vs) => {
                for i in 0..vs.len().saturating_sub(1) {
                    if vs[i] != vs[i + 1] {
                        let mut nv = vs.clone();
                        nv.swap(i, i + 1);
                        out.push(rebuild(St::Enum(name.clone(), nv)));
                    }
                }
                for (i, (_, d)) in vs.iter().enumerate() {
                    rec_data(
                        d,
                        &|nd| {
                            let mut nv = vs.clone();
                            nv[i].1 = nd;
                            rebuild(St::Enum(name.clone(), nv))
                        },
                        out,
                    );
                }
            }
            _ => {}
        }
    }
    fn rec_data(d: &Sd, rebuild: &dyn Fn(Sd) -> St, out: &mut Vec<St>) {
        match d {
            Sd::Unit => {}
            Sd::Newtype(i) => {
                // newtype <-> 1-tuple data kind
                out.push(rebuild(Sd::Tuple(vec![(**i).clone()])));
                rec(i, &|x| rebuild(Sd::Newtype(Box::new(x))), out)
            }
            Sd::Tuple(l) => {
                for i in 0..l.len().saturating_sub(1) {
                    if l[i] != l[i + 1] {
                        let mut nl = l.clone();
                        nl.swap(i, i + 1);
                        out.push(rebuild(Sd::Tuple(nl)));
                    }
                }
                for (i, c) in l.iter().enumerate() {
                    rec(
                        c,
                        &|x| {
                            let mut nl = l.clone();
                            nl[i] = x;
                            rebuild(Sd::Tuple(nl))
                        },
                        out,
                    );
                }
            }
            Sd::Struct(l) => {
                for i in 0..l.len().saturating_sub(1) {
                    if l[i] != l[i + 1] {
                        let mut nl = l.clone();
                        nl.swap(i, i + 1);
                        out.push(rebuild(Sd::Struct(nl)));
                    }
                }
                for (i, (_, c)) in l.iter().enumerate() {
                    rec(
                        c,
                        &|x| {
                            let mut nl = l.clone();
                            nl[i].1 = x;
                            rebuild(Sd::Struct(nl))
                        },
                        out,
                    );
                }
            }
        }
    }
    rec(t, &|x| x, &mut out);
    out
}

// ---------------------------------------------------------------------------------------------
// Tag stream: constants transcribed from the comment table / documentation of key/hash.rs.
// ---------------------------------------------------------------------------------------------

pub fn tag_of_prim(t: &St) -> Option<u8> {
    Some(match t {
        St::Bool => 0x11,
        St::I8 => 0xC5,
        St::U8 => 0x3D,
        St::I16 => 0x1D,
        St::I32 => 0x0D,
        St::I64 => 0x0B,
        St::I128 => 0x02,
        St::U16 => 0x83,
        St::U32 => 0xD3,
        St::U64 => 0x13,
        St::U128 => 0x8B,
        St::Usize => 0x6B,
        St::Isize => 0xAD,
        St::F32 => 0xEF,
        St::F64 => 0x71,
        St::Char => 0xC1,
        St::String => 0x25,
        St::ByteArray => 0x65,
        St::Unit => 0x47,
        St::Schema => 0xE5,
        _ => return None,
    })
}

pub fn tag_stream(t: &St, out: &mut Vec<u8>) {
    if let Some(b) = tag_of_prim(t) {
        out.push(b);
        return;
    }
    match t {
        St::Option(i) => {
            out.push(0x6D);
            tag_stream(i, out)
        }
        St::Seq(i) => {
            out.push(0x03);
            tag_stream(i, out)
        }
        St::Tuple(l) => {
            out.push(0xA7);
            l.iter().for_each(|s| tag_stream(s, out))
        }
        St::Map(k, v) => {
            out.push(0x4F);
            tag_stream(k, out);
            tag_stream(v, out)
        }
        // struct type name deliberately NOT hashed
        St::Struct(_name, d) => match d {
            Sd::Unit => out.push(0xBF),
            Sd::Newtype(i) => {
                out.push(0x9D);
                tag_stream(i, out)
            }
            Sd::Tuple(l) => {
                out.push(0x05);
                l.iter().for_each(|s| tag_stream(s, out))
            }
            Sd::Struct(l) => {
                out.push(0x7F);
                for (n, s) in l {
                    out.extend_from_slice(n.as_bytes());
                    tag_stream(s, out)
                }
            }
        },
        St::Enum(_name, vs) => {
            out.push(0xE9);
            for (vn, d) in vs {
                out.extend_from_slice(vn.as_bytes());
                match d {
                    Sd::Unit => out.push(0xB5),
                    Sd::Newtype(i) => {
                        out.push(0xDF);
                        tag_stream(i, out)
                    }
                    Sd::Tuple(l) => {
                        out.push(0xC7);
                        l.iter().for_each(|s| tag_stream(s, out))
                    }
                    Sd::Struct(l) => {
                        out.push(0x67);
                        for (n, s) in l {
                            out.extend_from_slice(n.as_bytes());
                            tag_stream(s, out)
                        }
                    }
                }
            }
        }
        _ => unreachable!(),
    }
}

/// FNV-1a 64 (offset basis 0xcbf29ce484222325, prime 0x100000001b3)
pub fn fnv1a64(data: &[u8]) -> u64 {
    let mut h: u128 = 0xcbf2_9ce4_8422_2325;
    for &b in data {
        h ^= b as u128;
        h = (h * 0x0000_0100_0000_01b3u128) % (1u128 << 64);
    }
    h as u64
}

pub fn reference_key(path: &str, t: &St) -> [u8; 8] {
    let mut stream = path.as_bytes().to_vec();
    tag_stream(t, &mut stream);
    let h = fnv1a64(&stream);
    let mut out = [0u8; 8];
    let mut n = h;
    for b in out.iter_mut() {
        *b = (n % 256) as u8;
        n /= 256;
    }
    out
}

pub fn fnv_self_test() -> Result<(), String> {
    // published FNV-1a 64 test vectors
    if fnv1a64(b"") != 0xcbf29ce484222325 {
        return Err("fnv empty".into());
    }
    if fnv1a64(b"a") != 0xaf63dc4c8601ec8c {
        return Err("fnv a".into());
    }
    if fnv1a64(b"foobar") != 0x85944171f73967e8 {
        return Err("fnv foobar".into());
    }
    // all 34 tags distinct
    let mut tags: Vec<u8> = PRIM_KINDS.iter().map(|p| tag_of_prim(p).unwrap()).collect();
    tags.extend_from_slice(&[0x6D, 0x03, 0xA7, 0x4F, 0xBF, 0x9D, 0x05, 0x7F, 0xE9, 0xB5, 0xDF, 0xC7, 0x67]);
    let n = tags.len();
    tags.sort();
    tags.dedup();
    if tags.len() != n || n != 33 {
        return Err(format!("tags not distinct / count {n}"));
    }
    Ok(())
}


/// Pair family: every ordered pair (a, b) of trees with <= 2 nodes under every binary-capable
/// constructor. Complements T(k): two compound children of the same kind but different payload
/// need 5+ nodes in T(k).
pub fn pair_family() -> Vec<St> {
    let en = SchemaEnum::new(2, 2);
    let small = en.upto(2);
    let mut out = vec![];
    for a in &small {
        for b in &small {
            out.push(St::Tuple(vec![a.clone(), b.clone()]));
            out.push(St::Map(Box::new(a.clone()), Box::new(b.clone())));
            out.push(St::Struct("P".into(), Sd::Tuple(vec![a.clone(), b.clone()])));
            out.push(St::Struct("P".into(), Sd::Struct(vec![("x".into(), a.clone()), ("y".into(), b.clone())])));
            out.push(St::Enum("P".into(), vec![("A".into(), Sd::Newtype(Box::new(a.clone()))), ("B".into(), Sd::Newtype(Box::new(b.clone())))]));
        }
    }
    out
}

/// Wide family: fan-out well beyond the 0..3 of T(k) (17, 20 and 130 children), heterogeneous so that
/// every position is distinguishable.
pub fn wide_family() -> Vec<St> {
    let leaves: Vec<St> = PRIM_KINDS.to_vec();
    let elem = |i: usize| -> St {
        match i % 5 {
            0 => leaves[i % leaves.len()].clone(),
            1 => St::Option(Box::new(leaves[i % leaves.len()].clone())),
            2 => St::Seq(Box::new(leaves[(i * 7) % leaves.len()].clone())),
            3 => St::Struct(format!("N{i}"), Sd::Newtype(Box::new(leaves[(i * 3) % leaves.len()].clone()))),
            _ => St::Tuple(vec![leaves[i % leaves.len()].clone(), leaves[(i + 1) % leaves.len()].clone()]),
        }
    };
    let mut out = vec![];
    for n in [16usize, 17, 20, 130] {
        let items: Vec<St> = (0..n).map(elem).collect();
        out.push(St::Tuple(items.clone()));
        out.push(St::Struct("Wide".into(), Sd::Tuple(items.clone())));
        out.push(St::Struct("Wide".into(), Sd::Struct(items.iter().enumerate().map(|(i, t)| (format!("f{i}"), t.clone())).collect())));
        out.push(St::Enum(
            "Wide".into(),
            items
                .iter()
                .enumerate()
                .map(|(i, t)| {
                    (
                        format!("V{i}"),
                        match i % 4 {
                            0 => Sd::Unit,
                            1 => Sd::Newtype(Box::new(t.clone())),
                            2 => Sd::Tuple(vec![t.clone(), St::U8]),
                            _ => Sd::Struct(vec![(format!("g{i}"), t.clone())]),
                        },
                    )
                })
                .collect(),
        ));
        out.push(St::Seq(Box::new(St::Tuple(items))));
    }
    out
}

/// Deep family: chains of `depth` single-child wrappers (one constructor repeated, and a rotation through
/// all of them) around a leaf - nesting far beyond what the node bound of T(k) reaches.
pub fn deep_chain(wrapper: usize, depth: usize, leaf: St) -> St {
    let mut t = leaf;
    for level in (0..depth).rev() {
        let w = if wrapper == 7 { level % 7 } else { wrapper };
        t = match w {
            0 => St::Option(Box::new(t)),
            1 => St::Seq(Box::new(t)),
            2 => St::Tuple(vec![t]),
            3 => St::Map(Box::new(St::String), Box::new(t)),
            4 => St::Struct(format!("S{level}"), Sd::Newtype(Box::new(t))),
            5 => St::Struct(format!("S{level}"), Sd::Struct(vec![("next".into(), t)])),
            _ => St::Enum(format!("E{level}"), vec![("Nil".into(), Sd::Unit), ("Cons".into(), Sd::Newtype(Box::new(t)))]),
        };
    }
    t
}
pub const DEEP_DEPTHS: [usize; 8] = [8, 15, 16, 17, 31, 32, 33, 70];
pub fn deep_family() -> Vec<St> {
    let mut out = vec![];
    for w in 0..8 {
        for d in DEEP_DEPTHS {
            out.push(deep_chain(w, d, St::U8));
        }
    }
    out
}

/// Long-name family: field / variant / type names of 8, 15, 16, 17, 40 and 300 bytes with all-distinct
/// neighbouring bytes (block-wise hashing or length-limited copies show up here).
pub fn long_name(n: usize) -> String {
    const A: &[u8] = b"abcdefghijklmnopqrstuvwxyzABCDEFGHIJKLMNOPQRSTUVWXYZ0123456789_";
    (0..n).map(|i| A[(i * 7 + i / A.len()) % A.len()] as char).collect()
}
pub fn long_name_family() -> Vec<St> {
    let mut out = vec![];
    for n in [8usize, 15, 16, 17, 40, 300] {
        let nm = long_name(n);
        out.push(St::Struct(nm.clone(), Sd::Struct(vec![(nm.clone(), St::U8), ("b".into(), St::Bool)])));
        out.push(St::Enum(nm.clone(), vec![(nm.clone(), Sd::Unit), ("B".into(), Sd::Newtype(Box::new(St::U16)))]));
        out.push(St::Enum("E".into(), vec![("A".into(), Sd::Struct(vec![(nm.clone(), St::I32)])), (nm.clone(), Sd::Tuple(vec![St::U8, St::Bool]))]));
    }
    out
}
