//! Independent COBS and CRC reference implementations, plus the accumulator model.

// ---------------------------------------------------------------------------------------------
// COBS (Cheshire & Baker): append a phantom zero, cut into blocks of <= 254 non-zero bytes
// followed by a zero; code = block length + 1; a full 254 block has code 0xFF and no implied zero.
// ---------------------------------------------------------------------------------------------

/// Encoded form WITHOUT the trailing 0x00 sentinel.
pub fn cobs_encode(msg: &[u8]) -> Vec<u8> {
    let mut out = vec![];
    let mut block: Vec<u8> = vec![];
    // iterate over msg ++ [phantom zero]
    let mut i = 0;
    let n = msg.len();
    loop {
        let b = if i < n { msg[i] } else { 0 };
        let is_phantom = i == n;
        if b == 0 {
            out.push(block.len() as u8 + 1);
            out.extend_from_slice(&block);
            block.clear();
            if is_phantom {
                return out;
            }
        } else {
            block.push(b);
            if block.len() == 254 {
                out.push(0xFF);
                out.extend_from_slice(&block);
                block.clear();
            }
        }
        i += 1;
    }
}

/// Decode a frame `f` (the bytes before the first 0x00; must not contain 0x00).
/// Err(()) iff some code byte points past the end of the frame.
pub fn cobs_decode_frame(f: &[u8]) -> Result<Vec<u8>, ()> {
    debug_assert!(!f.contains(&0));
    let mut out = vec![];
    let mut i = 0;
    while i < f.len() {
        let code = f[i] as usize;
        // code-1 data bytes follow
        if i + code > f.len() {
            return Err(());
        }
        out.extend_from_slice(&f[i + 1..i + code]);
        i += code;
        if code != 0xFF && i < f.len() {
            out.push(0);
        }
    }
    Ok(out)
}

/// first frame of a buffer: (frame bytes, had_sentinel, offset just after sentinel or len)
pub fn first_frame(buf: &[u8]) -> (&[u8], bool, usize) {
    match buf.iter().position(|&b| b == 0) {
        Some(p) => (&buf[..p], true, p + 1),
        None => (buf, false, buf.len()),
    }
}

pub fn cobs_self_test() -> Result<(), String> {
    let cases: &[(&[u8], &[u8])] = &[
        (&[], &[0x01]),
        (&[0x00], &[0x01, 0x01]),
        (&[0x00, 0x00], &[0x01, 0x01, 0x01]),
        (&[0x11, 0x22, 0x00, 0x33], &[0x03, 0x11, 0x22, 0x02, 0x33]),
        (&[0x11, 0x22, 0x33, 0x44], &[0x05, 0x11, 0x22, 0x33, 0x44]),
        (&[0x11, 0x00, 0x00, 0x00], &[0x02, 0x11, 0x01, 0x01, 0x01]),
    ];
    for (m, e) in cases {
        if cobs_encode(m) != *e {
            return Err(format!("cobs self-test encode {m:02x?}"));
        }
        if cobs_decode_frame(e).as_deref() != Ok(*m) {
            return Err(format!("cobs self-test decode {e:02x?}"));
        }
    }
    // wikipedia example: 01..FE (254 bytes) -> FF 01..FE  then phantom block 01
    let m: Vec<u8> = (1..=254u8).collect();
    let mut e = vec![0xFF];
    e.extend_from_slice(&m);
    e.push(0x01);
    if cobs_encode(&m) != e {
        return Err("cobs self-test 254".into());
    }
    // 00 01..FE -> 01 FF 01..FE 01
    let mut m2 = vec![0u8];
    m2.extend(1..=254u8);
    let mut e2 = vec![0x01, 0xFF];
    e2.extend(1..=254u8);
    e2.push(0x01);
    if cobs_encode(&m2) != e2 {
        return Err("cobs self-test 0+254".into());
    }
    // 01..FF (255 bytes) -> FF 01..FE 02 FF
    let m3: Vec<u8> = (1..=255u8).collect();
    let mut e3 = vec![0xFF];
    e3.extend(1..=254u8);
    e3.push(0x02);
    e3.push(0xFF);
    if cobs_encode(&m3) != e3 {
        return Err("cobs self-test 255".into());
    }
    for m in [&m[..], &m2[..], &m3[..]] {
        if cobs_decode_frame(&cobs_encode(m)).as_deref() != Ok(m) {
            return Err("cobs self-test roundtrip".into());
        }
        if cobs_encode(m).len() != m.len() + m.len() / 254 + 1 {
            return Err("cobs self-test length".into());
        }
    }
    Ok(())
}

// ---------------------------------------------------------------------------------------------
// CRC: Rocksoft model, bit at a time.
// ---------------------------------------------------------------------------------------------

#[derive(Clone, Copy, Debug)]
pub struct CrcParams {
    pub name: &'static str,
    pub width: u32,
    pub poly: u128,
    pub init: u128,
    pub refin: bool,
    pub refout: bool,
    pub xorout: u128,
    pub check: u128,
}

fn reflect(mut v: u128, width: u32) -> u128 {
    let mut r = 0u128;
    for _ in 0..width {
        r = (r << 1) | (v & 1);
        v >>= 1;
    }
    r
}

pub fn crc_bitwise(p: &CrcParams, data: &[u8]) -> u128 {
    let mask: u128 = if p.width == 128 { u128::MAX } else { (1u128 << p.width) - 1 };
    let top: u128 = 1u128 << (p.width - 1);
    let mut reg = p.init & mask;
    for &byte in data {
        let b = if p.refin { reflect(byte as u128, 8) as u8 } else { byte };
        for i in (0..8).rev() {
            let inbit = ((b >> i) & 1) as u128;
            let topbit = if reg & top != 0 { 1 } else { 0 };
            reg = (reg << 1) & mask;
            if topbit ^ inbit == 1 {
                reg ^= p.poly;
            }
        }
    }
    if p.refout {
        reg = reflect(reg, p.width);
    }
    (reg ^ p.xorout) & mask
}

/// parameters transcribed from the CRC RevEng catalogue
pub const CRC_CATALOG: &[CrcParams] = &[
    CrcParams { name: "CRC_8_SMBUS", width: 8, poly: 0x07, init: 0x00, refin: false, refout: false, xorout: 0x00, check: 0xf4 },
    CrcParams { name: "CRC_8_BLUETOOTH", width: 8, poly: 0xa7, init: 0x00, refin: true, refout: true, xorout: 0x00, check: 0x26 },
    CrcParams { name: "CRC_16_XMODEM", width: 16, poly: 0x1021, init: 0x0000, refin: false, refout: false, xorout: 0x0000, check: 0x31c3 },
    CrcParams { name: "CRC_16_IBM_SDLC", width: 16, poly: 0x1021, init: 0xffff, refin: true, refout: true, xorout: 0xffff, check: 0x906e },
    CrcParams { name: "CRC_32_BZIP2", width: 32, poly: 0x04c11db7, init: 0xffffffff, refin: false, refout: false, xorout: 0xffffffff, check: 0xfc891918 },
    CrcParams { name: "CRC_32_ISCSI", width: 32, poly: 0x1edc6f41, init: 0xffffffff, refin: true, refout: true, xorout: 0xffffffff, check: 0xe3069283 },
    CrcParams { name: "CRC_32_ISO_HDLC", width: 32, poly: 0x04c11db7, init: 0xffffffff, refin: true, refout: true, xorout: 0xffffffff, check: 0xcbf43926 },
    CrcParams { name: "CRC_64_ECMA_182", width: 64, poly: 0x42f0e1eba9ea3693, init: 0, refin: false, refout: false, xorout: 0, check: 0x6c40df5f0b497347 },
    CrcParams { name: "CRC_64_XZ", width: 64, poly: 0x42f0e1eba9ea3693, init: 0xffffffffffffffff, refin: true, refout: true, xorout: 0xffffffffffffffff, check: 0x995dc9bbdf1939fa },
    CrcParams { name: "CRC_82_DARC", width: 82, poly: 0x0308c0111011401440411, init: 0, refin: true, refout: true, xorout: 0, check: 0x09ea83f625023801fd612 },
];

pub fn crc_self_test() -> Result<(), String> {
    for p in CRC_CATALOG {
        let got = crc_bitwise(p, b"123456789");
        if got != p.check {
            return Err(format!("crc self-test {}: got {got:x} want {:x}", p.name, p.check));
        }
    }
    Ok(())
}

pub fn le_bytes(v: u128, nbytes: usize) -> Vec<u8> {
    let mut out = vec![];
    let mut n = v;
    for _ in 0..nbytes {
        out.push((n % 256) as u8);
        n /= 256;
    }
    out
}

// ---------------------------------------------------------------------------------------------
// Accumulator step model. State = pending bytes of the current unterminated segment.
// ---------------------------------------------------------------------------------------------

#[derive(Clone, Debug, PartialEq, Eq)]
pub enum AccOut {
    Consumed,
    /// remaining offset into chunk
    OverFull(usize),
    /// frame bytes (pending ++ chunk up to, excluding, the zero), remaining offset
    Frame(Vec<u8>, usize),
}

/// One `feed` call on a model state. `cap` = N.
/// Returns (outcome, new pending).
pub fn acc_step(cap: usize, pending: &[u8], chunk: &[u8]) -> (AccOut, Vec<u8>) {
    if chunk.is_empty() {
        return (AccOut::Consumed, pending.to_vec());
    }
    match chunk.iter().position(|&b| b == 0) {
        Some(z) => {
            // segment incl. sentinel must fit
            if pending.len() + z + 1 <= cap {
                let mut frame = pending.to_vec();
                frame.extend_from_slice(&chunk[..z]);
                (AccOut::Frame(frame, z + 1), vec![])
            } else {
                (AccOut::OverFull(z + 1), vec![])
            }
        }
        None => {
            if pending.len() + chunk.len() > cap {
                // drop what would have filled the buffer, hand back the rest
                (AccOut::OverFull(cap - pending.len()), vec![])
            } else {
                let mut p = pending.to_vec();
                p.extend_from_slice(chunk);
                (AccOut::Consumed, p)
            }
        }
    }
}
