//! Evidence file writer (schema: /root/.vp/EVIDENCE.schema.json).

use serde_json::{json, Map, Value};
use std::collections::BTreeMap;
use std::time::Instant;

pub struct Evidence {
    pub property_id: String,
    pub tier: String,
    pub seed: u64,
    pub level: String,
    pub start: Instant,
    pub evaluations: u64,
    pub distinct_nontrivial: u64,
    pub rule: String,
    pub samples: Vec<Value>,
    pub states: Option<u64>,
    pub transitions: Option<u64>,
    pub traces_validated: Option<u64>,
    pub exhaustive: bool,
    pub bounds: Map<String, Value>,
    pub outcome_classes: BTreeMap<String, u64>,
    pub parts: Vec<Value>,
    pub assumptions: Vec<String>,
    pub violations: i64,
    pub known_findings: Vec<Value>,
    pub caps_hit: Vec<String>,
}

impl Evidence {
    pub fn new(id: &str, tier: &str, seed: u64, level: &str) -> Self {
        Evidence {
            property_id: id.to_string(),
            tier: tier.to_string(),
            seed,
            level: level.to_string(),
            start: Instant::now(),
            evaluations: 0,
            distinct_nontrivial: 0,
            rule: String::new(),
            samples: vec![],
            states: None,
            transitions: None,
            traces_validated: None,
            exhaustive: true,
            bounds: Map::new(),
            outcome_classes: BTreeMap::new(),
            parts: vec![],
            assumptions: vec![],
            violations: 0,
            known_findings: vec![],
            caps_hit: vec![],
        }
    }
    pub fn class(&mut self, name: &str, n: u64) {
        *self.outcome_classes.entry(name.to_string()).or_insert(0) += n;
    }
    pub fn bound(&mut self, k: &str, v: Value) {
        self.bounds.insert(k.to_string(), v);
    }
    pub fn sample(&mut self, v: Value) {
        if self.samples.len() < 12 {
            self.samples.push(v);
        }
    }
    pub fn part(&mut self, name: &str, evaluations: u64, detail: Value) {
        self.parts.push(json!({"part": name, "evaluations": evaluations, "detail": detail}));
    }
    pub fn to_json(&self) -> Value {
        let mut cov = Map::new();
        cov.insert("evaluations".into(), json!(self.evaluations));
        cov.insert("distinct_nontrivial".into(), json!(self.distinct_nontrivial));
        cov.insert("rule".into(), json!(self.rule));
        cov.insert("samples".into(), Value::Array(self.samples.clone()));
        if let Some(s) = self.states {
            cov.insert("states".into(), json!(s));
        }
        if let Some(s) = self.transitions {
            cov.insert("transitions".into(), json!(s));
        }
        if let Some(s) = self.traces_validated {
            cov.insert("traces_validated_against_impl".into(), json!(s));
        }
        cov.insert("exhaustive".into(), json!(self.exhaustive && self.caps_hit.is_empty()));
        cov.insert("bounds".into(), Value::Object(self.bounds.clone()));
        cov.insert("outcome_classes".into(), json!(self.outcome_classes));
        cov.insert("parts".into(), Value::Array(self.parts.clone()));
        cov.insert("known_findings_reported".into(), Value::Array(self.known_findings.clone()));
        cov.insert("caps_hit".into(), json!(self.caps_hit));
        json!({
            "property_id": self.property_id,
            "tier": self.tier,
            "seed": self.seed,
            "level": self.level,
            "coverage": Value::Object(cov),
            "assumptions": self.assumptions,
            "wall_s": self.start.elapsed().as_secs_f64(),
            "violations": self.violations,
        })
    }
    pub fn write(&self, dir: &str) -> std::io::Result<String> {
        std::fs::create_dir_all(dir)?;
        let path = format!("{}/{}.json", dir, self.property_id);
        let tmp = format!("{}.tmp", path);
        std::fs::write(&tmp, serde_json::to_string_pretty(&self.to_json()).unwrap())?;
        std::fs::rename(&tmp, &path)?;
        Ok(path)
    }
}
