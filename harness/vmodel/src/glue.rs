//! serde glue: `impl Serialize for Val` calls exactly the Serializer method of its kind,
//! `ShapeSeed` (DeserializeSeed) calls exactly the Deserializer method of its kind.

use crate::shape::*;
use serde::de::{self, DeserializeSeed, EnumAccess, MapAccess, SeqAccess, VariantAccess, Visitor};
use serde::ser::{
    SerializeMap, SerializeSeq, SerializeStruct, SerializeStructVariant, SerializeTuple, SerializeTupleStruct,
    SerializeTupleVariant,
};
use serde::{Serialize, Serializer};
use std::fmt;

pub struct Frags<'a>(pub &'a [String]);
impl fmt::Display for Frags<'_> {
    fn fmt(&self, f: &mut fmt::Formatter<'_>) -> fmt::Result {
        for s in self.0 {
            f.write_str(s)?;
        }
        Ok(())
    }
}

pub struct Chars<'a>(pub &'a str);
impl fmt::Display for Chars<'_> {
    fn fmt(&self, f: &mut fmt::Formatter<'_>) -> fmt::Result {
        use fmt::Write;
        for c in self.0.chars() {
            f.write_char(c)?;
        }
        Ok(())
    }
}

/// Wrapper so that `Val` (which derives Serialize for JSON replay files) can also be serialised
/// *as the value it denotes*.
pub struct AsData<'a>(pub &'a Val);

struct BytesRef<'a>(&'a [u8]);
impl Serialize for BytesRef<'_> {
    fn serialize<S: Serializer>(&self, s: S) -> Result<S::Ok, S::Error> {
        s.serialize_bytes(self.0)
    }
}

impl Serialize for AsData<'_> {
    fn serialize<S: Serializer>(&self, s: S) -> Result<S::Ok, S::Error> {
        match self.0 {
            Val::Bool(x) => s.serialize_bool(*x),
            Val::I8(x) => s.serialize_i8(*x),
            Val::I16(x) => s.serialize_i16(*x),
            Val::I32(x) => s.serialize_i32(*x),
            Val::I64(x) => s.serialize_i64(*x),
            Val::I128(x) => s.serialize_i128(*x),
            Val::U8(x) => s.serialize_u8(*x),
            Val::U16(x) => s.serialize_u16(*x),
            Val::U32(x) => s.serialize_u32(*x),
            Val::U64(x) => s.serialize_u64(*x),
            Val::U128(x) => s.serialize_u128(*x),
            Val::F32(b) => s.serialize_f32(f32::from_bits(*b)),
            Val::F64(b) => s.serialize_f64(f64::from_bits(*b)),
            Val::Char(c) => s.serialize_char(*c),
            Val::Str(x) => s.serialize_str(x),
            Val::Bytes(b) => s.serialize_bytes(b),
            Val::None => s.serialize_none(),
            Val::Some(x) => s.serialize_some(&AsData(x)),
            Val::Unit => s.serialize_unit(),
            Val::UnitStruct => s.serialize_unit_struct("US"),
            Val::NewtypeStruct(x) => s.serialize_newtype_struct("NS", &AsData(x)),
            Val::Seq(l) => {
                let mut q = s.serialize_seq(Some(l.len()))?;
                for x in l {
                    q.serialize_element(&AsData(x))?;
                }
                q.end()
            }
            Val::SeqNoLen(l) => {
                let mut q = s.serialize_seq(None)?;
                for x in l {
                    q.serialize_element(&AsData(x))?;
                }
                q.end()
            }
            Val::Tuple(l) => {
                let mut q = s.serialize_tuple(l.len())?;
                for x in l {
                    q.serialize_element(&AsData(x))?;
                }
                q.end()
            }
            Val::TupleStruct(l) => {
                let mut q = s.serialize_tuple_struct("TS", l.len())?;
                for x in l {
                    q.serialize_field(&AsData(x))?;
                }
                q.end()
            }
            Val::Map(es) => {
                let mut q = s.serialize_map(Some(es.len()))?;
                for (k, v) in es {
                    q.serialize_key(&AsData(k))?;
                    q.serialize_value(&AsData(v))?;
                }
                q.end()
            }
            Val::MapNoLen(es) => {
                let mut q = s.serialize_map(None)?;
                for (k, v) in es {
                    q.serialize_key(&AsData(k))?;
                    q.serialize_value(&AsData(v))?;
                }
                q.end()
            }
            Val::Struct(l) => {
                let mut q = s.serialize_struct("S", l.len())?;
                for (i, x) in l.iter().enumerate() {
                    q.serialize_field(fname(i), &AsData(x))?;
                }
                q.end()
            }
            Val::Variant { pos, idx, data } => match data {
                VVal::Unit => s.serialize_unit_variant("E", *idx, vname(*pos)),
                VVal::Newtype(x) => s.serialize_newtype_variant("E", *idx, vname(*pos), &AsData(x)),
                VVal::Tuple(l) => {
                    let mut q = s.serialize_tuple_variant("E", *idx, vname(*pos), l.len())?;
                    for x in l {
                        q.serialize_field(&AsData(x))?;
                    }
                    q.end()
                }
                VVal::Struct(l) => {
                    let mut q = s.serialize_struct_variant("E", *idx, vname(*pos), l.len())?;
                    for (i, x) in l.iter().enumerate() {
                        q.serialize_field(fname(i), &AsData(x))?;
                    }
                    q.end()
                }
            },
            Val::Display(frags) => s.collect_str(&Frags(frags)),
            Val::DisplayChars(t) => s.collect_str(&Chars(t)),
        }
    }
}

// ---------------------------------------------------------------------------------------------

/// What to do with borrowed str/bytes: record their address range (for C04/C11 pointer checks)
#[derive(Default)]
pub struct Borrows {
    pub ranges: std::cell::RefCell<Vec<(usize, usize)>>,
}

#[derive(Clone, Copy)]
pub struct ShapeSeed<'s> {
    pub shape: &'s Shape,
    pub borrows: Option<&'s Borrows>,
}

impl<'s> ShapeSeed<'s> {
    pub fn new(shape: &'s Shape) -> Self {
        ShapeSeed { shape, borrows: None }
    }
    fn sub(&self, shape: &'s Shape) -> Self {
        ShapeSeed { shape, borrows: self.borrows }
    }
}

fn cautious(hint: Option<usize>) -> usize {
    // like serde's size_hint::cautious::<Val>() : at most 1 MiB worth of elements
    let max = (1024 * 1024) / std::mem::size_of::<Val>().max(1);
    hint.unwrap_or(0).min(max)
}

macro_rules! prim_visitor {
    ($name:ident, $visit:ident, $ty:ty, $mk:expr, $exp:expr) => {
        struct $name;
        impl<'de> Visitor<'de> for $name {
            type Value = Val;
            fn expecting(&self, f: &mut fmt::Formatter) -> fmt::Result {
                f.write_str($exp)
            }
            fn $visit<E: de::Error>(self, v: $ty) -> Result<Val, E> {
                Ok($mk(v))
            }
        }
    };
}
prim_visitor!(BoolV, visit_bool, bool, Val::Bool, "bool");
prim_visitor!(I8V, visit_i8, i8, Val::I8, "i8");
prim_visitor!(I16V, visit_i16, i16, Val::I16, "i16");
prim_visitor!(I32V, visit_i32, i32, Val::I32, "i32");
prim_visitor!(I64V, visit_i64, i64, Val::I64, "i64");
prim_visitor!(I128V, visit_i128, i128, Val::I128, "i128");
prim_visitor!(U8V, visit_u8, u8, Val::U8, "u8");
prim_visitor!(U16V, visit_u16, u16, Val::U16, "u16");
prim_visitor!(U32V, visit_u32, u32, Val::U32, "u32");
prim_visitor!(U64V, visit_u64, u64, Val::U64, "u64");
prim_visitor!(U128V, visit_u128, u128, Val::U128, "u128");
prim_visitor!(F32V, visit_f32, f32, |x: f32| Val::F32(x.to_bits()), "f32");
prim_visitor!(F64V, visit_f64, f64, |x: f64| Val::F64(x.to_bits()), "f64");
prim_visitor!(CharV, visit_char, char, Val::Char, "char");

struct StrV<'s>(Option<&'s Borrows>);
impl<'de> Visitor<'de> for StrV<'_> {
    type Value = Val;
    fn expecting(&self, f: &mut fmt::Formatter) -> fmt::Result {
        f.write_str("str")
    }
    fn visit_borrowed_str<E: de::Error>(self, v: &'de str) -> Result<Val, E> {
        if let Some(b) = self.0 {
            b.ranges.borrow_mut().push((v.as_ptr() as usize, v.len()));
        }
        Ok(Val::Str(v.to_string()))
    }
    fn visit_str<E: de::Error>(self, v: &str) -> Result<Val, E> {
        Ok(Val::Str(v.to_string()))
    }
}
struct BytesV<'s>(Option<&'s Borrows>);
impl<'de> Visitor<'de> for BytesV<'_> {
    type Value = Val;
    fn expecting(&self, f: &mut fmt::Formatter) -> fmt::Result {
        f.write_str("bytes")
    }
    fn visit_borrowed_bytes<E: de::Error>(self, v: &'de [u8]) -> Result<Val, E> {
        if let Some(b) = self.0 {
            b.ranges.borrow_mut().push((v.as_ptr() as usize, v.len()));
        }
        Ok(Val::Bytes(v.to_vec()))
    }
    fn visit_bytes<E: de::Error>(self, v: &[u8]) -> Result<Val, E> {
        Ok(Val::Bytes(v.to_vec()))
    }
}
struct UnitV(Val);
impl<'de> Visitor<'de> for UnitV {
    type Value = Val;
    fn expecting(&self, f: &mut fmt::Formatter) -> fmt::Result {
        f.write_str("unit")
    }
    fn visit_unit<E: de::Error>(self) -> Result<Val, E> {
        Ok(self.0)
    }
}
struct OptionV<'s>(ShapeSeed<'s>);
impl<'de> Visitor<'de> for OptionV<'_> {
    type Value = Val;
    fn expecting(&self, f: &mut fmt::Formatter) -> fmt::Result {
        f.write_str("option")
    }
    fn visit_none<E: de::Error>(self) -> Result<Val, E> {
        Ok(Val::None)
    }
    fn visit_some<D: de::Deserializer<'de>>(self, d: D) -> Result<Val, D::Error> {
        Ok(Val::Some(Box::new(self.0.deserialize(d)?)))
    }
}
struct NewtypeV<'s>(ShapeSeed<'s>);
impl<'de> Visitor<'de> for NewtypeV<'_> {
    type Value = Val;
    fn expecting(&self, f: &mut fmt::Formatter) -> fmt::Result {
        f.write_str("newtype struct")
    }
    fn visit_newtype_struct<D: de::Deserializer<'de>>(self, d: D) -> Result<Val, D::Error> {
        Ok(Val::NewtypeStruct(Box::new(self.0.deserialize(d)?)))
    }
}
struct SeqV<'s>(ShapeSeed<'s>);
impl<'de> Visitor<'de> for SeqV<'_> {
    type Value = Val;
    fn expecting(&self, f: &mut fmt::Formatter) -> fmt::Result {
        f.write_str("seq")
    }
    fn visit_seq<A: SeqAccess<'de>>(self, mut a: A) -> Result<Val, A::Error> {
        let mut v = Vec::with_capacity(cautious(a.size_hint()));
        while let Some(x) = a.next_element_seed(self.0)? {
            v.push(x);
        }
        Ok(Val::Seq(v))
    }
}
/// fixed-arity list visitor (tuple / tuple struct / struct / tuple variant / struct variant)
struct ListV<'s> {
    shapes: &'s [Shape],
    seed: ShapeSeed<'s>,
}
impl<'de> Visitor<'de> for ListV<'_> {
    type Value = Vec<Val>;
    fn expecting(&self, f: &mut fmt::Formatter) -> fmt::Result {
        write!(f, "list of {}", self.shapes.len())
    }
    fn visit_seq<A: SeqAccess<'de>>(self, mut a: A) -> Result<Vec<Val>, A::Error> {
        let mut v = Vec::with_capacity(self.shapes.len());
        for (i, s) in self.shapes.iter().enumerate() {
            match a.next_element_seed(self.seed.sub(s))? {
                Some(x) => v.push(x),
                None => return Err(de::Error::invalid_length(i, &self)),
            }
        }
        Ok(v)
    }
}
struct MapV<'s>(ShapeSeed<'s>, ShapeSeed<'s>);
impl<'de> Visitor<'de> for MapV<'_> {
    type Value = Val;
    fn expecting(&self, f: &mut fmt::Formatter) -> fmt::Result {
        f.write_str("map")
    }
    fn visit_map<A: MapAccess<'de>>(self, mut a: A) -> Result<Val, A::Error> {
        // deliberately does not pre-allocate from the hint (maps are outside C04's bound)
        let mut v = Vec::new();
        while let Some(k) = a.next_key_seed(self.0)? {
            let val = a.next_value_seed(self.1)?;
            v.push((k, val));
        }
        Ok(Val::Map(v))
    }
}

struct IdxSeed;
struct IdxV;
impl<'de> Visitor<'de> for IdxV {
    type Value = u64;
    fn expecting(&self, f: &mut fmt::Formatter) -> fmt::Result {
        f.write_str("variant index")
    }
    fn visit_u32<E: de::Error>(self, v: u32) -> Result<u64, E> {
        Ok(v as u64)
    }
    fn visit_u64<E: de::Error>(self, v: u64) -> Result<u64, E> {
        Ok(v)
    }
}
impl<'de> DeserializeSeed<'de> for IdxSeed {
    type Value = u64;
    fn deserialize<D: de::Deserializer<'de>>(self, d: D) -> Result<u64, D::Error> {
        d.deserialize_identifier(IdxV)
    }
}

struct EnumV<'s> {
    variants: &'s [(u32, VShape)],
    seed: ShapeSeed<'s>,
}
impl<'de> Visitor<'de> for EnumV<'_> {
    type Value = Val;
    fn expecting(&self, f: &mut fmt::Formatter) -> fmt::Result {
        f.write_str("enum")
    }
    fn visit_enum<A: EnumAccess<'de>>(self, a: A) -> Result<Val, A::Error> {
        let (idx, va) = a.variant_seed(IdxSeed)?;
        let pos = match self.variants.iter().position(|(i, _)| *i as u64 == idx) {
            Some(p) => p,
            None => return Err(de::Error::invalid_value(de::Unexpected::Unsigned(idx), &"a known variant index")),
        };
        let idx = idx as u32;
        let data = match &self.variants[pos].1 {
            VShape::Unit => {
                va.unit_variant()?;
                VVal::Unit
            }
            VShape::Newtype(s) => VVal::Newtype(Box::new(va.newtype_variant_seed(self.seed.sub(s))?)),
            VShape::Tuple(l) => VVal::Tuple(va.tuple_variant(l.len(), ListV { shapes: l, seed: self.seed })?),
            VShape::Struct(l) => VVal::Struct(va.struct_variant(field_names(l.len()), ListV { shapes: l, seed: self.seed })?),
        };
        Ok(Val::Variant { pos, idx, data })
    }
}

impl<'de, 's> DeserializeSeed<'de> for ShapeSeed<'s> {
    type Value = Val;
    fn deserialize<D: de::Deserializer<'de>>(self, d: D) -> Result<Val, D::Error> {
        use Shape as S;
        match self.shape {
            S::Bool => d.deserialize_bool(BoolV),
            S::I8 => d.deserialize_i8(I8V),
            S::I16 => d.deserialize_i16(I16V),
            S::I32 => d.deserialize_i32(I32V),
            S::I64 => d.deserialize_i64(I64V),
            S::I128 => d.deserialize_i128(I128V),
            S::U8 => d.deserialize_u8(U8V),
            S::U16 => d.deserialize_u16(U16V),
            S::U32 => d.deserialize_u32(U32V),
            S::U64 => d.deserialize_u64(U64V),
            S::U128 => d.deserialize_u128(U128V),
            S::F32 => d.deserialize_f32(F32V),
            S::F64 => d.deserialize_f64(F64V),
            S::Char => d.deserialize_char(CharV),
            S::Str => d.deserialize_str(StrV(self.borrows)),
            S::Bytes => d.deserialize_bytes(BytesV(self.borrows)),
            S::Option(i) => d.deserialize_option(OptionV(self.sub(i))),
            S::Unit => d.deserialize_unit(UnitV(Val::Unit)),
            S::UnitStruct => d.deserialize_unit_struct("US", UnitV(Val::UnitStruct)),
            S::NewtypeStruct(i) => d.deserialize_newtype_struct("NS", NewtypeV(self.sub(i))),
            S::Seq(e) => d.deserialize_seq(SeqV(self.sub(e))),
            S::Tuple(l) => Ok(Val::Tuple(d.deserialize_tuple(l.len(), ListV { shapes: l, seed: self })?)),
            S::TupleStruct(l) => {
                Ok(Val::TupleStruct(d.deserialize_tuple_struct("TS", l.len(), ListV { shapes: l, seed: self })?))
            }
            S::Struct(l) => Ok(Val::Struct(d.deserialize_struct("S", field_names(l.len()), ListV { shapes: l, seed: self })?)),
            S::Map(k, v) => d.deserialize_map(MapV(self.sub(k), self.sub(v))),
            S::Enum(vs) => d.deserialize_enum("E", variant_names(vs.len()), EnumV { variants: vs, seed: self }),
        }
    }
}
