//! Dynamic serde data model: `Shape` (a type as data) and `Val` (a value of a shape).
//! Nothing in this crate imports postcard.

use serde::{Deserialize, Serialize};

#[derive(Clone, Debug, PartialEq, Eq, Hash, PartialOrd, Ord, Serialize, Deserialize)]
pub enum Shape {
    Bool,
    I8,
    I16,
    I32,
    I64,
    I128,
    U8,
    U16,
    U32,
    U64,
    U128,
    F32,
    F64,
    Char,
    Str,
    Bytes,
    Option(Box<Shape>),
    Unit,
    UnitStruct,
    NewtypeStruct(Box<Shape>),
    Seq(Box<Shape>),
    Tuple(Vec<Shape>),
    TupleStruct(Vec<Shape>),
    Map(Box<Shape>, Box<Shape>),
    Struct(Vec<Shape>),
    /// variants: (wire index, payload shape); name of variant at position p is VNAMES[p]
    Enum(Vec<(u32, VShape)>),
}

#[derive(Clone, Debug, PartialEq, Eq, Hash, PartialOrd, Ord, Serialize, Deserialize)]
pub enum VShape {
    Unit,
    Newtype(Box<Shape>),
    Tuple(Vec<Shape>),
    Struct(Vec<Shape>),
}

#[derive(Clone, Debug, PartialEq, Eq, Hash, PartialOrd, Ord, Serialize, Deserialize)]
pub enum Val {
    Bool(bool),
    I8(i8),
    I16(i16),
    I32(i32),
    I64(i64),
    I128(#[serde(with = "as_str")] i128),
    U8(u8),
    U16(u16),
    U32(u32),
    U64(u64),
    U128(#[serde(with = "as_str")] u128),
    /// bit pattern, so equality is bit-for-bit
    F32(u32),
    F64(u64),
    Char(char),
    Str(String),
    Bytes(Vec<u8>),
    None,
    Some(Box<Val>),
    Unit,
    UnitStruct,
    NewtypeStruct(Box<Val>),
    Seq(Vec<Val>),
    Tuple(Vec<Val>),
    TupleStruct(Vec<Val>),
    Map(Vec<(Val, Val)>),
    Struct(Vec<Val>),
    /// pos = position of the variant in the enum shape, idx = wire index
    Variant { pos: usize, idx: u32, data: VVal },
    // ---- encoder-only specials (C02) ----
    SeqNoLen(Vec<Val>),
    MapNoLen(Vec<(Val, Val)>),
    /// a Display value written in several fragments, serialised with collect_str
    Display(Vec<String>),
    /// a Display value written one char at a time through `Formatter::write_char`
    DisplayChars(String),
}

#[derive(Clone, Debug, PartialEq, Eq, Hash, PartialOrd, Ord, Serialize, Deserialize)]
pub enum VVal {
    Unit,
    Newtype(Box<Val>),
    Tuple(Vec<Val>),
    Struct(Vec<Val>),
}

/// 128-bit integers as decimal strings (serde_json's Value cannot hold them)
mod as_str {
    use serde::{Deserialize, Deserializer, Serializer};
    use std::fmt::Display;
    use std::str::FromStr;
    pub fn serialize<T: Display, S: Serializer>(v: &T, s: S) -> Result<S::Ok, S::Error> {
        s.collect_str(v)
    }
    pub fn deserialize<'de, T: FromStr, D: Deserializer<'de>>(d: D) -> Result<T, D::Error> {
        let s = String::deserialize(d)?;
        s.parse().map_err(|_| serde::de::Error::custom("bad 128-bit integer"))
    }
}

/// deliberately NOT in ascending order: a JSON object sorts its keys, a schema keeps declaration order
pub const FNAMES: [&str; 16] = ["m", "c", "x", "a", "k", "b", "z", "d", "q", "e", "w", "f", "p", "g", "y", "h"];
pub const VNAMES: [&str; 16] = ["V0", "V1", "V2", "V3", "V4", "V5", "V6", "V7", "V8", "V9", "V10", "V11", "V12", "V13", "V14", "V15"];
pub static FIELDS: [&[&str]; 17] = [
    &[],
    &["m"],
    &["m", "c"],
    &["m", "c", "x"],
    &["m", "c", "x", "a"],
    &["m", "c", "x", "a", "k"],
    &["m", "c", "x", "a", "k", "b"],
    &["m", "c", "x", "a", "k", "b", "z"],
    &["m", "c", "x", "a", "k", "b", "z", "d"],
    &["m", "c", "x", "a", "k", "b", "z", "d", "q"],
    &["m", "c", "x", "a", "k", "b", "z", "d", "q", "e"],
    &["m", "c", "x", "a", "k", "b", "z", "d", "q", "e", "w"],
    &["m", "c", "x", "a", "k", "b", "z", "d", "q", "e", "w", "f"],
    &["m", "c", "x", "a", "k", "b", "z", "d", "q", "e", "w", "f", "p"],
    &["m", "c", "x", "a", "k", "b", "z", "d", "q", "e", "w", "f", "p", "g"],
    &["m", "c", "x", "a", "k", "b", "z", "d", "q", "e", "w", "f", "p", "g", "y"],
    &["m", "c", "x", "a", "k", "b", "z", "d", "q", "e", "w", "f", "p", "g", "y", "h"],
];
pub static VARIANTS: [&[&str]; 17] = [
    &[],
    &["V0"],
    &["V0", "V1"],
    &["V0", "V1", "V2"],
    &["V0", "V1", "V2", "V3"],
    &["V0", "V1", "V2", "V3", "V4"],
    &["V0", "V1", "V2", "V3", "V4", "V5"],
    &["V0", "V1", "V2", "V3", "V4", "V5", "V6"],
    &["V0", "V1", "V2", "V3", "V4", "V5", "V6", "V7"],
    &["V0", "V1", "V2", "V3", "V4", "V5", "V6", "V7", "V8"],
    &["V0", "V1", "V2", "V3", "V4", "V5", "V6", "V7", "V8", "V9"],
    &["V0", "V1", "V2", "V3", "V4", "V5", "V6", "V7", "V8", "V9", "V10"],
    &["V0", "V1", "V2", "V3", "V4", "V5", "V6", "V7", "V8", "V9", "V10", "V11"],
    &["V0", "V1", "V2", "V3", "V4", "V5", "V6", "V7", "V8", "V9", "V10", "V11", "V12"],
    &["V0", "V1", "V2", "V3", "V4", "V5", "V6", "V7", "V8", "V9", "V10", "V11", "V12", "V13"],
    &["V0", "V1", "V2", "V3", "V4", "V5", "V6", "V7", "V8", "V9", "V10", "V11", "V12", "V13", "V14"],
    &["V0", "V1", "V2", "V3", "V4", "V5", "V6", "V7", "V8", "V9", "V10", "V11", "V12", "V13", "V14", "V15"],
];

/// static name lists of any length (leaked once per length beyond the built-in tables)
pub fn field_names(n: usize) -> &'static [&'static str] {
    if n <= 16 {
        return FIELDS[n];
    }
    big_names(n, false)
}
pub fn variant_names(n: usize) -> &'static [&'static str] {
    if n <= 16 {
        return VARIANTS[n];
    }
    big_names(n, true)
}
pub fn fname(i: usize) -> &'static str {
    if i < 16 {
        FNAMES[i]
    } else {
        big_names(i + 1, false)[i]
    }
}
pub fn vname(i: usize) -> &'static str {
    if i < 16 {
        VNAMES[i]
    } else {
        big_names(i + 1, true)[i]
    }
}
fn big_names(n: usize, variants: bool) -> &'static [&'static str] {
    use std::collections::HashMap;
    use std::sync::Mutex;
    static CACHE: Mutex<Option<HashMap<(usize, bool), &'static [&'static str]>>> = Mutex::new(None);
    let mut g = CACHE.lock().unwrap();
    let m = g.get_or_insert_with(HashMap::new);
    if let Some(v) = m.get(&(n, variants)) {
        return v;
    }
    let v: Vec<&'static str> = (0..n)
        .map(|i| if i < 16 { if variants { VNAMES[i] } else { FNAMES[i] } } else { &*Box::leak(format!("{}{}", if variants { "V" } else { "n" }, i).into_boxed_str()) })
        .collect();
    let leaked: &'static [&'static str] = Box::leak(v.into_boxed_slice());
    m.insert((n, variants), leaked);
    leaked
}

impl Shape {
    pub fn nodes(&self) -> usize {
        use Shape::*;
        match self {
            Option(s) | NewtypeStruct(s) | Seq(s) => 1 + s.nodes(),
            Tuple(v) | TupleStruct(v) | Struct(v) => 1 + v.iter().map(|s| s.nodes()).sum::<usize>(),
            Map(k, v) => 1 + k.nodes() + v.nodes(),
            Enum(vs) => 1 + vs.iter().map(|(_, v)| v.nodes()).sum::<usize>(),
            _ => 1,
        }
    }
    pub fn is_leaf(&self) -> bool {
        self.nodes() == 1 && !matches!(self, Shape::Tuple(_) | Shape::TupleStruct(_) | Shape::Struct(_))
    }
    /// true iff every value of this shape encodes to zero bytes
    pub fn zero_width(&self) -> bool {
        use Shape::*;
        match self {
            Unit | UnitStruct => true,
            NewtypeStruct(s) => s.zero_width(),
            Tuple(v) | TupleStruct(v) | Struct(v) => v.iter().all(|s| s.zero_width()),
            _ => false,
        }
    }
    /// minimum number of bytes any encoding of this shape occupies
    pub fn min_width(&self) -> usize {
        use Shape::*;
        match self {
            Unit | UnitStruct => 0,
            F32 => 4,
            F64 => 8,
            NewtypeStruct(s) => s.min_width(),
            Tuple(v) | TupleStruct(v) | Struct(v) => v.iter().map(|s| s.min_width()).sum(),
            Enum(vs) => vs
                .iter()
                .map(|(i, v)| crate::spec::varint_len(*i as u128) + v.min_width())
                .min()
                .unwrap_or(1),
            _ => 1,
        }
    }
    pub fn kind_name(&self) -> &'static str {
        use Shape::*;
        match self {
            Bool => "bool",
            I8 => "i8",
            I16 => "i16",
            I32 => "i32",
            I64 => "i64",
            I128 => "i128",
            U8 => "u8",
            U16 => "u16",
            U32 => "u32",
            U64 => "u64",
            U128 => "u128",
            F32 => "f32",
            F64 => "f64",
            Char => "char",
            Str => "str",
            Bytes => "bytes",
            Option(_) => "option",
            Unit => "unit",
            UnitStruct => "unit_struct",
            NewtypeStruct(_) => "newtype_struct",
            Seq(_) => "seq",
            Tuple(_) => "tuple",
            TupleStruct(_) => "tuple_struct",
            Map(_, _) => "map",
            Struct(_) => "struct",
            Enum(_) => "enum",
        }
    }
    /// all kinds of nodes occurring (incl. variant kinds), for coverage accounting
    pub fn kinds(&self, out: &mut std::collections::BTreeSet<&'static str>) {
        use Shape::*;
        if !matches!(self, Enum(_)) {
            out.insert(self.kind_name());
        }
        match self {
            Option(s) | NewtypeStruct(s) | Seq(s) => s.kinds(out),
            Tuple(v) | TupleStruct(v) | Struct(v) => v.iter().for_each(|s| s.kinds(out)),
            Map(k, v) => {
                k.kinds(out);
                v.kinds(out)
            }
            Enum(vs) => {
                for (_, v) in vs {
                    match v {
                        VShape::Unit => {
                            out.insert("unit_variant");
                        }
                        VShape::Newtype(s) => {
                            out.insert("newtype_variant");
                            s.kinds(out)
                        }
                        VShape::Tuple(v) => {
                            out.insert("tuple_variant");
                            v.iter().for_each(|s| s.kinds(out))
                        }
                        VShape::Struct(v) => {
                            out.insert("struct_variant");
                            v.iter().for_each(|s| s.kinds(out))
                        }
                    }
                }
            }
            _ => {}
        }
    }
}

impl VShape {
    pub fn nodes(&self) -> usize {
        match self {
            VShape::Unit => 1,
            VShape::Newtype(s) => 1 + s.nodes(),
            VShape::Tuple(v) | VShape::Struct(v) => 1 + v.iter().map(|s| s.nodes()).sum::<usize>(),
        }
    }
    pub fn min_width(&self) -> usize {
        match self {
            VShape::Unit => 0,
            VShape::Newtype(s) => s.min_width(),
            VShape::Tuple(v) | VShape::Struct(v) => v.iter().map(|s| s.min_width()).sum(),
        }
    }
}

// ---------------------------------------------------------------------------------------------
// Shape enumeration S(k)
// ---------------------------------------------------------------------------------------------

pub fn leaf_shapes() -> Vec<Shape> {
    use Shape::*;
    vec![
        Bool, I8, I16, I32, I64, I128, U8, U16, U32, U64, U128, F32, F64, Char, Str, Bytes, Unit, UnitStruct,
    ]
}

/// compositions of `total` into `parts` positive integers
fn compositions(total: usize, parts: usize) -> Vec<Vec<usize>> {
    if parts == 0 {
        return if total == 0 { vec![vec![]] } else { vec![] };
    }
    if total < parts {
        return vec![];
    }
    if parts == 1 {
        return vec![vec![total]];
    }
    let mut out = vec![];
    for first in 1..=(total - (parts - 1)) {
        for mut rest in compositions(total - first, parts - 1) {
            let mut v = vec![first];
            v.append(&mut rest);
            out.push(v);
        }
    }
    out
}

pub struct ShapeEnum {
    /// exact[n] = all shapes with exactly n nodes (index 0 unused)
    exact: Vec<Vec<Shape>>,
    vexact: Vec<Vec<VShape>>,
    max_list: usize,
}

impl ShapeEnum {
    pub fn new(k: usize, max_list: usize) -> Self {
        let mut me = ShapeEnum { exact: vec![vec![]], vexact: vec![vec![]], max_list };
        for n in 1..=k {
            let s = me.build_exact(n);
            me.exact.push(s);
            let v = me.build_vexact(n);
            me.vexact.push(v);
        }
        me
    }
    fn lists(&self, total: usize, min_len: usize, max_len: usize) -> Vec<Vec<Shape>> {
        let mut out = vec![];
        for len in min_len..=max_len {
            for comp in compositions(total, len) {
                // cartesian product of exact[c] for c in comp
                let mut acc: Vec<Vec<Shape>> = vec![vec![]];
                for c in comp {
                    let mut next = vec![];
                    for pre in &acc {
                        for s in &self.exact[c] {
                            let mut p = pre.clone();
                            p.push(s.clone());
                            next.push(p);
                        }
                    }
                    acc = next;
                }
                out.extend(acc);
            }
        }
        out
    }
    fn build_vexact(&self, n: usize) -> Vec<VShape> {
        // variant payloads with exactly n nodes; uses exact[..n]
        let mut out = vec![];
        if n == 1 {
            out.push(VShape::Unit);
            out.push(VShape::Tuple(vec![]));
            out.push(VShape::Struct(vec![]));
            return out;
        }
        for s in &self.exact[n - 1] {
            out.push(VShape::Newtype(Box::new(s.clone())));
        }
        for l in self.lists(n - 1, 1, 2.min(self.max_list)) {
            out.push(VShape::Tuple(l.clone()));
            out.push(VShape::Struct(l));
        }
        out
    }
    fn build_exact(&self, n: usize) -> Vec<Shape> {
        use Shape::*;
        let mut out = vec![];
        if n == 1 {
            out = leaf_shapes();
            out.push(Tuple(vec![]));
            out.push(TupleStruct(vec![]));
            out.push(Struct(vec![]));
            return out;
        }
        for s in &self.exact[n - 1] {
            out.push(Option(Box::new(s.clone())));
            out.push(NewtypeStruct(Box::new(s.clone())));
            out.push(Seq(Box::new(s.clone())));
        }
        for comp in compositions(n - 1, 2) {
            for k in &self.exact[comp[0]] {
                for v in &self.exact[comp[1]] {
                    out.push(Map(Box::new(k.clone()), Box::new(v.clone())));
                }
            }
        }
        for l in self.lists(n - 1, 1, self.max_list) {
            out.push(Tuple(l.clone()));
            out.push(TupleStruct(l.clone()));
            out.push(Struct(l));
        }
        // enums: 1 or 2 variants, payload node counts sum to n-1
        for v in &self.vexact[n - 1] {
            out.push(Enum(vec![(0, v.clone())]));
        }
        for comp in compositions(n - 1, 2) {
            for a in &self.vexact[comp[0]] {
                for b in &self.vexact[comp[1]] {
                    out.push(Enum(vec![(0, a.clone()), (1, b.clone())]));
                }
            }
        }
        out
    }
    pub fn exact(&self, n: usize) -> &[Shape] {
        &self.exact[n]
    }
    pub fn upto(&self, k: usize) -> Vec<Shape> {
        let mut v = vec![];
        for n in 1..=k {
            v.extend(self.exact[n].iter().cloned());
        }
        v
    }
}

pub const VARIANT_INDEX_SET: [u32; 7] = [0, 1, 127, 128, 16383, 16384, u32::MAX];

/// For an enum-containing shape built with indices 0/1, instantiate each other index of the
/// boundary set for one variant at a time (top-level enum node only and nested enums, first found).
pub fn index_variations(s: &Shape) -> Vec<Shape> {
    let mut out = vec![];
    // simple approach: walk, and for the first Enum node found (pre-order) produce the variations
    fn vary(s: &Shape, out: &mut Vec<Shape>, rebuild: &dyn Fn(Shape) -> Shape) -> bool {
        use Shape::*;
        match s {
            Enum(vs) => {
                for p in 0..vs.len() {
                    for &ix in VARIANT_INDEX_SET.iter() {
                        if vs.iter().any(|(i, _)| *i == ix) {
                            continue;
                        }
                        let mut nv = vs.clone();
                        nv[p].0 = ix;
                        out.push(rebuild(Enum(nv)));
                    }
                }
                true
            }
            Option(i) => vary(i, out, &|x| rebuild(Option(Box::new(x)))),
            NewtypeStruct(i) => vary(i, out, &|x| rebuild(NewtypeStruct(Box::new(x)))),
            Seq(i) => vary(i, out, &|x| rebuild(Seq(Box::new(x)))),
            Map(k, v) => {
                if vary(k, out, &|x| rebuild(Map(Box::new(x), v.clone()))) {
                    return true;
                }
                vary(v, out, &|x| rebuild(Map(k.clone(), Box::new(x))))
            }
            Tuple(l) | TupleStruct(l) | Struct(l) => {
                for (i, c) in l.iter().enumerate() {
                    let done = vary(c, out, &|x| {
                        let mut nl = l.clone();
                        nl[i] = x;
                        rebuild(match s {
                            Tuple(_) => Tuple(nl),
                            TupleStruct(_) => TupleStruct(nl),
                            _ => Struct(nl),
                        })
                    });
                    if done {
                        return true;
                    }
                }
                false
            }
            _ => false,
        }
    }
    vary(s, &mut out, &|x| x);
    out
}

// ---------------------------------------------------------------------------------------------
// Value domains D(shape)
// ---------------------------------------------------------------------------------------------

/// level 0: bare-leaf domain (whole domain for small types), 1: boundary set, 2: minimal
pub type Level = u8;

pub fn b_unsigned(bits: u32) -> Vec<u128> {
    let max: u128 = if bits == 128 { u128::MAX } else { (1u128 << bits) - 1 };
    let mut v = vec![0u128, max];
    for j in 1..bits {
        let p = 1u128 << j;
        v.push(p - 1);
        v.push(p);
        if p + 1 <= max {
            v.push(p + 1);
        }
    }
    for i in 0..(bits / 8) {
        for b in [1u128, 0x7F, 0x80, 0xFF] {
            v.push(b << (8 * i));
        }
    }
    v.sort();
    v.dedup();
    v
}

pub fn group_boundaries(bits: u32) -> Vec<u128> {
    let max: u128 = if bits == 128 { u128::MAX } else { (1u128 << bits) - 1 };
    let mut v = vec![0u128, 1, max];
    let mut j = 7;
    while j < bits {
        v.push((1u128 << j) - 1);
        v.push(1u128 << j);
        j += 7;
    }
    v.sort();
    v.dedup();
    v
}

fn signed_from_unsigned_set(bits: u32, set: &[u128]) -> Vec<i128> {
    // values n and -n and -(n+1) for each magnitude that fits, plus MIN/MAX
    let max: i128 = if bits == 128 { i128::MAX } else { (1i128 << (bits - 1)) - 1 };
    let min: i128 = if bits == 128 { i128::MIN } else { -(1i128 << (bits - 1)) };
    let mut v = vec![0, 1, -1, max, min];
    for &u in set {
        if u <= max as u128 {
            let n = u as i128;
            v.push(n);
            v.push(-n);
            if -n - 1 >= min {
                v.push(-n - 1);
            }
        }
    }
    v.sort();
    v.dedup();
    v
}

pub fn float32_set() -> Vec<u32> {
    let mut v = vec![
        0x0000_0000,
        0x8000_0000,
        0x0000_0001,
        0x007F_FFFF,
        0x0080_0000,
        0x7F7F_FFFF,
        0x3F80_0000,
        0xBF80_0000,
        0x7F80_0000,
        0xFF80_0000,
        0x7FC0_0000,
        0xFFC0_0000,
        0x7F80_0001,
        0xFF80_0001,
        0x7FBF_FFFF,
        0x7FFF_FFFF,
        0xFFFF_FFFF,
        0x7FC0_0001,
        0x7FA0_0000,
        0x8000_0001,
        0x807F_FFFF,
        0x8080_0000,
        0xFF7F_FFFF,
    ];
    for i in 0..4 {
        for b in [0x01u32, 0x7F, 0x80, 0xFF] {
            v.push(b << (8 * i));
        }
    }
    for j in 0..23 {
        v.push(0x7F80_0000 | (1 << j));
    }
    v.sort();
    v.dedup();
    v
}

pub fn float64_set() -> Vec<u64> {
    let mut v = vec![
        0,
        0x8000_0000_0000_0000,
        1,
        0x000F_FFFF_FFFF_FFFF,
        0x0010_0000_0000_0000,
        0x7FEF_FFFF_FFFF_FFFF,
        0x3FF0_0000_0000_0000,
        0xBFF0_0000_0000_0000,
        0x7FF0_0000_0000_0000,
        0xFFF0_0000_0000_0000,
        0x7FF8_0000_0000_0000,
        0xFFF8_0000_0000_0000,
        0x7FF0_0000_0000_0001,
        0xFFF0_0000_0000_0001,
        0x7FF7_FFFF_FFFF_FFFF,
        0x7FFF_FFFF_FFFF_FFFF,
        0xFFFF_FFFF_FFFF_FFFF,
        0x8000_0000_0000_0001,
        0x800F_FFFF_FFFF_FFFF,
        0x8010_0000_0000_0000,
        0xFFEF_FFFF_FFFF_FFFF,
    ];
    for i in 0..8 {
        for b in [0x01u64, 0x7F, 0x80, 0xFF] {
            v.push(b << (8 * i));
        }
    }
    for j in 0..52 {
        v.push(0x7FF0_0000_0000_0000 | (1 << j));
    }
    v.sort();
    v.dedup();
    v
}

pub fn char_boundaries() -> Vec<char> {
    [0x00u32, 0x7F, 0x80, 0x7FF, 0x800, 0xD7FF, 0xE000, 0xFFFF, 0x10000, 0x10FFFF]
        .iter()
        .map(|&c| char::from_u32(c).unwrap())
        .collect()
}

pub fn string_set(level: Level, long: bool) -> Vec<String> {
    let mut v: Vec<String> = vec!["".into(), "a".into()];
    if level <= 1 {
        v.push("é".into());
        v.push("€".into());
        v.push("😀".into());
        v.push("a\0b".into());
        v.push("x".repeat(127));
        v.push("y".repeat(128));
        if level == 0 {
            v.push("aé€😀".into());
            v.push("é".repeat(64)); // 128 bytes, 64 scalars
            if long {
                v.push("z".repeat(16383));
                v.push("w".repeat(16384));
            }
        }
    } else {
        v.push("é".into());
    }
    v
}

pub fn bytes_set(level: Level, long: bool) -> Vec<Vec<u8>> {
    let mut v: Vec<Vec<u8>> = vec![vec![], vec![0], vec![1]];
    if level <= 1 {
        v.push(vec![0xFF]);
        v.push(vec![0, 0]);
        v.push(vec![1, 0, 2]);
        v.push(vec![0x80, 0x7F, 0xFF, 0x00]);
        v.push(vec![0xAB; 127]);
        v.push(vec![0xCD; 128]);
        if level == 0 && long {
            v.push(vec![0x11; 16383]);
            v.push(vec![0x22; 16384]);
        }
    }
    v
}

pub struct Domain {
    pub cap: usize,
    pub long: bool,
}

impl Default for Domain {
    fn default() -> Self {
        Domain { cap: 4096, long: false }
    }
}

fn product_capped(doms: &[Vec<Val>], cap: usize) -> Option<Vec<Vec<Val>>> {
    let mut total: usize = 1;
    for d in doms {
        total = total.checked_mul(d.len().max(1))?;
        if total > cap {
            return None;
        }
    }
    let mut acc: Vec<Vec<Val>> = vec![vec![]];
    for d in doms {
        let mut next = Vec::with_capacity(acc.len() * d.len());
        for pre in &acc {
            for x in d {
                let mut p = pre.clone();
                p.push(x.clone());
                next.push(p);
            }
        }
        acc = next;
    }
    Some(acc)
}

impl Domain {
    /// All values of the domain of `s` at `level`, completely enumerated.
    pub fn values(&self, s: &Shape, level: Level) -> Vec<Val> {
        use Shape::*;
        let lv = level.min(2);
        match s {
            Bool => vec![Val::Bool(false), Val::Bool(true)],
            U8 => match lv {
                0 => (0..=255u8).map(Val::U8).collect(),
                1 => [0u8, 1, 0x7F, 0x80, 0xFF].iter().map(|&x| Val::U8(x)).collect(),
                _ => [0u8, 0xFF].iter().map(|&x| Val::U8(x)).collect(),
            },
            I8 => match lv {
                0 => (i8::MIN..=i8::MAX).map(Val::I8).collect(),
                1 => [0i8, 1, -1, 127, -128].iter().map(|&x| Val::I8(x)).collect(),
                _ => [0i8, -128].iter().map(|&x| Val::I8(x)).collect(),
            },
            U16 => match lv {
                0 => (0..=u16::MAX).map(Val::U16).collect(),
                1 => group_boundaries(16).iter().map(|&x| Val::U16(x as u16)).collect(),
                _ => [0u16, 128, u16::MAX].iter().map(|&x| Val::U16(x)).collect(),
            },
            I16 => match lv {
                0 => (i16::MIN..=i16::MAX).map(Val::I16).collect(),
                1 => signed_from_unsigned_set(16, &group_boundaries(15)).iter().map(|&x| Val::I16(x as i16)).collect(),
                _ => [0i16, -65, i16::MIN].iter().map(|&x| Val::I16(x)).collect(),
            },
            U32 => match lv {
                0 => b_unsigned(32).iter().map(|&x| Val::U32(x as u32)).collect(),
                1 => group_boundaries(32).iter().map(|&x| Val::U32(x as u32)).collect(),
                _ => [0u32, 1 << 14, u32::MAX].iter().map(|&x| Val::U32(x)).collect(),
            },
            U64 => match lv {
                0 => b_unsigned(64).iter().map(|&x| Val::U64(x as u64)).collect(),
                1 => group_boundaries(64).iter().map(|&x| Val::U64(x as u64)).collect(),
                _ => [0u64, 1 << 35, u64::MAX].iter().map(|&x| Val::U64(x)).collect(),
            },
            U128 => match lv {
                0 => b_unsigned(128).iter().map(|&x| Val::U128(x)).collect(),
                1 => group_boundaries(128).iter().map(|&x| Val::U128(x)).collect(),
                _ => [0u128, 1 << 70, u128::MAX].iter().map(|&x| Val::U128(x)).collect(),
            },
            I32 => match lv {
                0 => signed_from_unsigned_set(32, &b_unsigned(31)).iter().map(|&x| Val::I32(x as i32)).collect(),
                1 => signed_from_unsigned_set(32, &group_boundaries(31)).iter().map(|&x| Val::I32(x as i32)).collect(),
                _ => [0i32, -(1 << 20), i32::MIN].iter().map(|&x| Val::I32(x)).collect(),
            },
            I64 => match lv {
                0 => signed_from_unsigned_set(64, &b_unsigned(63)).iter().map(|&x| Val::I64(x as i64)).collect(),
                1 => signed_from_unsigned_set(64, &group_boundaries(63)).iter().map(|&x| Val::I64(x as i64)).collect(),
                _ => [0i64, -(1 << 40), i64::MIN].iter().map(|&x| Val::I64(x)).collect(),
            },
            I128 => match lv {
                0 => signed_from_unsigned_set(128, &b_unsigned(127)).iter().map(|&x| Val::I128(x)).collect(),
                1 => signed_from_unsigned_set(128, &group_boundaries(127)).iter().map(|&x| Val::I128(x)).collect(),
                _ => [0i128, -(1 << 90), i128::MIN].iter().map(|&x| Val::I128(x)).collect(),
            },
            F32 => match lv {
                0 => float32_set().into_iter().map(Val::F32).collect(),
                1 => [0u32, 0x8000_0000, 0x3F80_0000, 0x7F80_0000, 0x7FC0_0000, 0xFFC0_0001, 1]
                    .iter()
                    .map(|&x| Val::F32(x))
                    .collect(),
                _ => [0x8000_0000u32, 0x7FC0_0001].iter().map(|&x| Val::F32(x)).collect(),
            },
            F64 => match lv {
                0 => float64_set().into_iter().map(Val::F64).collect(),
                1 => [
                    0u64,
                    0x8000_0000_0000_0000,
                    0x3FF0_0000_0000_0000,
                    0x7FF0_0000_0000_0000,
                    0x7FF8_0000_0000_0000,
                    0xFFF8_0000_0000_0001,
                    1,
                ]
                .iter()
                .map(|&x| Val::F64(x))
                .collect(),
                _ => [0x8000_0000_0000_0000u64, 0x7FF8_0000_0000_0001].iter().map(|&x| Val::F64(x)).collect(),
            },
            Char => match lv {
                0 | 1 => char_boundaries().into_iter().map(Val::Char).collect(),
                _ => ['a', '€'].iter().map(|&c| Val::Char(c)).collect(),
            },
            Str => string_set(lv, self.long).into_iter().map(Val::Str).collect(),
            Bytes => bytes_set(lv, self.long).into_iter().map(Val::Bytes).collect(),
            Unit => vec![Val::Unit],
            UnitStruct => vec![Val::UnitStruct],
            Option(i) => {
                let mut v = vec![Val::None];
                v.extend(self.values(i, lv.max(1)).into_iter().map(|x| Val::Some(Box::new(x))));
                v
            }
            NewtypeStruct(i) => self.values(i, lv).into_iter().map(|x| Val::NewtypeStruct(Box::new(x))).collect(),
            Seq(e) => {
                let ed = self.values(e, (lv + 1).min(2).max(1));
                let mut v = vec![Val::Seq(vec![])];
                for a in &ed {
                    v.push(Val::Seq(vec![a.clone()]));
                }
                if lv < 2 {
                    let ed2: &[Val] = if ed.len() > 8 { &ed[..8] } else { &ed };
                    for a in ed2 {
                        for b in ed2 {
                            v.push(Val::Seq(vec![a.clone(), b.clone()]));
                        }
                    }
                    if lv == 0 {
                        v.push(Val::Seq(vec![ed[0].clone(); 127]));
                        v.push(Val::Seq(vec![ed[ed.len() - 1].clone(); 128]));
                    }
                } else {
                    v.push(Val::Seq(vec![ed[0].clone(), ed[ed.len() - 1].clone()]));
                }
                v
            }
            Map(k, vv) => {
                let kd = self.values(k, 2);
                let vd = self.values(vv, 2);
                let mut v = vec![Val::Map(vec![])];
                for a in &kd {
                    for b in &vd {
                        v.push(Val::Map(vec![(a.clone(), b.clone())]));
                    }
                }
                // two entries: first/last keys (distinct when possible) with first/last values
                let k0 = kd[0].clone();
                let k1 = kd[kd.len() - 1].clone();
                v.push(Val::Map(vec![(k0.clone(), vd[0].clone()), (k1.clone(), vd[vd.len() - 1].clone())]));
                if lv == 0 {
                    v.push(Val::Map(vec![(k1, vd[0].clone()), (k0, vd[vd.len() - 1].clone())]));
                }
                v
            }
            Tuple(l) => self.list_values(l, lv).into_iter().map(Val::Tuple).collect(),
            TupleStruct(l) => self.list_values(l, lv).into_iter().map(Val::TupleStruct).collect(),
            Struct(l) => self.list_values(l, lv).into_iter().map(Val::Struct).collect(),
            Enum(vs) => {
                let mut out = vec![];
                for (pos, (idx, vs)) in vs.iter().enumerate() {
                    match vs {
                        VShape::Unit => out.push(Val::Variant { pos, idx: *idx, data: VVal::Unit }),
                        VShape::Newtype(s) => {
                            for x in self.values(s, lv.max(1)) {
                                out.push(Val::Variant { pos, idx: *idx, data: VVal::Newtype(Box::new(x)) })
                            }
                        }
                        VShape::Tuple(l) => {
                            for x in self.list_values(l, lv.max(1)) {
                                out.push(Val::Variant { pos, idx: *idx, data: VVal::Tuple(x) })
                            }
                        }
                        VShape::Struct(l) => {
                            for x in self.list_values(l, lv.max(1)) {
                                out.push(Val::Variant { pos, idx: *idx, data: VVal::Struct(x) })
                            }
                        }
                    }
                }
                out
            }
        }
    }

    fn list_values(&self, l: &[Shape], lv: Level) -> Vec<Vec<Val>> {
        if l.is_empty() {
            return vec![vec![]];
        }
        // choose the least reduced level whose product fits under the cap
        let start = if l.len() == 1 { lv } else { lv.max(1) };
        for level in start..=2 {
            let doms: Vec<Vec<Val>> = l.iter().map(|s| self.values(s, level)).collect();
            if let Some(p) = product_capped(&doms, self.cap) {
                return p;
            }
        }
        // still too large: first/last of each field
        let doms: Vec<Vec<Val>> = l
            .iter()
            .map(|s| {
                let d = self.values(s, 2);
                if d.len() > 2 {
                    vec![d[0].clone(), d[d.len() - 1].clone()]
                } else {
                    d
                }
            })
            .collect();
        product_capped(&doms, usize::MAX).unwrap()
    }
}

/// does `v` inhabit `s` (sanity check used by self-tests)
pub fn inhabits(v: &Val, s: &Shape) -> bool {
    use Shape as S;
    match (v, s) {
        (Val::Bool(_), S::Bool)
        | (Val::I8(_), S::I8)
        | (Val::I16(_), S::I16)
        | (Val::I32(_), S::I32)
        | (Val::I64(_), S::I64)
        | (Val::I128(_), S::I128)
        | (Val::U8(_), S::U8)
        | (Val::U16(_), S::U16)
        | (Val::U32(_), S::U32)
        | (Val::U64(_), S::U64)
        | (Val::U128(_), S::U128)
        | (Val::F32(_), S::F32)
        | (Val::F64(_), S::F64)
        | (Val::Char(_), S::Char)
        | (Val::Str(_), S::Str)
        | (Val::Bytes(_), S::Bytes)
        | (Val::Unit, S::Unit)
        | (Val::UnitStruct, S::UnitStruct)
        | (Val::None, S::Option(_)) => true,
        (Val::Some(x), S::Option(i)) | (Val::NewtypeStruct(x), S::NewtypeStruct(i)) => inhabits(x, i),
        (Val::Seq(xs), S::Seq(e)) => xs.iter().all(|x| inhabits(x, e)),
        (Val::Tuple(xs), S::Tuple(l)) | (Val::TupleStruct(xs), S::TupleStruct(l)) | (Val::Struct(xs), S::Struct(l)) => {
            xs.len() == l.len() && xs.iter().zip(l).all(|(x, s)| inhabits(x, s))
        }
        (Val::Map(es), S::Map(k, vv)) => es.iter().all(|(a, b)| inhabits(a, k) && inhabits(b, vv)),
        (Val::Variant { pos, idx, data }, S::Enum(vs)) => {
            if *pos >= vs.len() || vs[*pos].0 != *idx {
                return false;
            }
            match (data, &vs[*pos].1) {
                (VVal::Unit, VShape::Unit) => true,
                (VVal::Newtype(x), VShape::Newtype(s)) => inhabits(x, s),
                (VVal::Tuple(xs), VShape::Tuple(l)) | (VVal::Struct(xs), VShape::Struct(l)) => {
                    xs.len() == l.len() && xs.iter().zip(l).all(|(x, s)| inhabits(x, s))
                }
                _ => false,
            }
        }
        _ => false,
    }
}
