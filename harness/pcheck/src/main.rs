mod checks;
mod corpus;
mod dynval;
mod framing;
mod record;
mod rt;
mod schema_glue;

use rt::{Ctx, Tier};

#[global_allocator]
static ALLOC: rt::CountingAlloc = rt::CountingAlloc;

fn usage() -> ! {
    eprintln!("usage: pcheck <C01..C20> --tier quick|thorough | pcheck --replay <file>");
    std::process::exit(2)
}

fn main() {
    let args: Vec<String> = std::env::args().skip(1).collect();
    if args.is_empty() {
        usage();
    }
    rt::install_panic_hook();
    rt::install_fault_handlers();
    rt::start_watchdog(std::env::var("VERIF_HANG_LIMIT_S").ok().and_then(|s| s.parse().ok()).unwrap_or(180));
    let threads = std::env::var("VERIF_THREADS").ok().and_then(|s| s.parse().ok()).unwrap_or(16usize);
    rayon::ThreadPoolBuilder::new()
        .num_threads(threads)
        .stack_size(64 << 20)
        .start_handler(|_| rt::thread_init())
        .build_global()
        .unwrap();
    if let Err(e) = vmodel::self_test_all() {
        eprintln!("MACHINERY: reference-model self-test failed: {e}");
        std::process::exit(2);
    }
    if args[0] == "--replay" {
        let code = checks::replay(args.get(1).map(|s| s.as_str()).unwrap_or_else(|| usage()));
        std::process::exit(code);
    }
    if args[0] == "worker" {
        std::process::exit(checks::worker(&args[1..]));
    }
    let id = args[0].clone();
    let mut tier = match std::env::var("VERIF_TIER").as_deref() {
        Ok("thorough") => Tier::Thorough,
        _ => Tier::Quick,
    };
    let mut i = 1;
    while i < args.len() {
        match args[i].as_str() {
            "--tier" => {
                tier = match args.get(i + 1).map(|s| s.as_str()) {
                    Some("quick") => Tier::Quick,
                    Some("thorough") => Tier::Thorough,
                    _ => usage(),
                };
                i += 2;
            }
            _ => usage(),
        }
    }
    let seed: u64 = std::env::var("VERIF_SEED").ok().and_then(|s| s.parse().ok()).unwrap_or(0);
    let code = checks::run(&id, tier, seed);
    std::process::exit(code);
}

pub fn new_ctx(id: &str, tier: Tier, seed: u64, level: &str) -> Ctx {
    Ctx::new(id, tier, seed, level)
}
