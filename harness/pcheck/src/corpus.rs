//! Typed corpus: concrete Rust types (std impls, serde-derive output) with completely
//! enumerated bounded value domains.

use serde::{de::DeserializeOwned, Deserialize, Serialize};
use std::collections::{BTreeMap, BTreeSet, HashMap, VecDeque};
use std::fmt::Debug;

pub trait Dom: Sized {
    /// boundary-structured domain
    fn dom() -> Vec<Self>;
    /// at most ~3 values, used inside composites
    fn small() -> Vec<Self> {
        let mut d = Self::dom();
        if d.len() > 3 {
            let last = d.pop().unwrap();
            let mid = d.swap_remove(d.len() / 2);
            let first = d.swap_remove(0);
            vec![first, mid, last]
        } else {
            d
        }
    }
    /// bit-exact equality (floats by bits)
    fn biteq(&self, other: &Self) -> bool;
}

macro_rules! dom_uint {
    ($($t:ty),*) => {$(
        impl Dom for $t {
            fn dom() -> Vec<Self> {
                let bits = <$t>::BITS;
                let mut v: Vec<$t> = vec![0, 1, <$t>::MAX];
                let mut j = 7;
                while j < bits { v.push(((1u128 << j) - 1) as $t); v.push((1u128 << j) as $t); j += 7; }
                v.sort(); v.dedup(); v
            }
            fn biteq(&self, o: &Self) -> bool { self == o }
        }
    )*};
}
macro_rules! dom_sint {
    ($($t:ty),*) => {$(
        impl Dom for $t {
            fn dom() -> Vec<Self> {
                let bits = <$t>::BITS;
                let mut v: Vec<$t> = vec![0, 1, -1, <$t>::MAX, <$t>::MIN];
                let mut j = 6;
                while j < bits - 1 { let p = (1i128 << j) as $t; v.push(p - 1); v.push(p); v.push(-p); v.push(-p - 1); j += 7; }
                v.sort(); v.dedup(); v
            }
            fn biteq(&self, o: &Self) -> bool { self == o }
        }
    )*};
}
dom_uint!(u8, u16, u32, u64, u128, usize);
dom_sint!(i8, i16, i32, i64, i128, isize);

impl Dom for bool {
    fn dom() -> Vec<Self> {
        vec![false, true]
    }
    fn biteq(&self, o: &Self) -> bool {
        self == o
    }
}
impl Dom for () {
    fn dom() -> Vec<Self> {
        vec![()]
    }
    fn biteq(&self, _: &Self) -> bool {
        true
    }
}
impl Dom for char {
    fn dom() -> Vec<Self> {
        vmodel::shape::char_boundaries()
    }
    fn biteq(&self, o: &Self) -> bool {
        self == o
    }
}
impl Dom for f32 {
    fn dom() -> Vec<Self> {
        [0u32, 0x8000_0000, 0x3F80_0000, 0x7F80_0000, 0xFF80_0000, 0x7FC0_0000, 0xFFC0_0001, 0x7F80_0001, 1, 0x7F7F_FFFF]
            .iter()
            .map(|b| f32::from_bits(*b))
            .collect()
    }
    fn biteq(&self, o: &Self) -> bool {
        self.to_bits() == o.to_bits()
    }
}
impl Dom for f64 {
    fn dom() -> Vec<Self> {
        [
            0u64,
            0x8000_0000_0000_0000,
            0x3FF0_0000_0000_0000,
            0x7FF0_0000_0000_0000,
            0xFFF0_0000_0000_0000,
            0x7FF8_0000_0000_0000,
            0xFFF8_0000_0000_0001,
            0x7FF0_0000_0000_0001,
            1,
            0x7FEF_FFFF_FFFF_FFFF,
        ]
        .iter()
        .map(|b| f64::from_bits(*b))
        .collect()
    }
    fn biteq(&self, o: &Self) -> bool {
        self.to_bits() == o.to_bits()
    }
}
impl Dom for String {
    fn dom() -> Vec<Self> {
        vec!["".into(), "a".into(), "é€😀".into(), "a\0b".into(), "x".repeat(127), "y".repeat(128)]
    }
    fn small() -> Vec<Self> {
        vec!["".into(), "é".into(), "y".repeat(128)]
    }
    fn biteq(&self, o: &Self) -> bool {
        self == o
    }
}
impl<T: Dom + Clone> Dom for Vec<T> {
    fn dom() -> Vec<Self> {
        let e = T::small();
        let mut v = vec![vec![]];
        for a in &e {
            v.push(vec![a.clone()]);
        }
        for a in &e {
            for b in &e {
                v.push(vec![a.clone(), b.clone()]);
            }
        }
        v.push(vec![e[0].clone(); 127]);
        v.push(vec![e[e.len() - 1].clone(); 128]);
        v
    }
    fn small() -> Vec<Self> {
        let e = T::small();
        vec![vec![], vec![e[0].clone(), e[e.len() - 1].clone()]]
    }
    fn biteq(&self, o: &Self) -> bool {
        self.len() == o.len() && self.iter().zip(o).all(|(a, b)| a.biteq(b))
    }
}
impl<T: Dom + Clone> Dom for VecDeque<T> {
    fn dom() -> Vec<Self> {
        Vec::<T>::dom().into_iter().map(|v| v.into_iter().collect()).collect()
    }
    fn small() -> Vec<Self> {
        Vec::<T>::small().into_iter().map(|v| v.into_iter().collect()).collect()
    }
    fn biteq(&self, o: &Self) -> bool {
        self.len() == o.len() && self.iter().zip(o).all(|(a, b)| a.biteq(b))
    }
}
impl<T: Dom + Clone> Dom for Box<[T]> {
    fn dom() -> Vec<Self> {
        Vec::<T>::dom().into_iter().map(|v| v.into_boxed_slice()).collect()
    }
    fn small() -> Vec<Self> {
        Vec::<T>::small().into_iter().map(|v| v.into_boxed_slice()).collect()
    }
    fn biteq(&self, o: &Self) -> bool {
        self.len() == o.len() && self.iter().zip(o.iter()).all(|(a, b)| a.biteq(b))
    }
}
impl<T: Dom + Clone + Ord> Dom for BTreeSet<T> {
    fn dom() -> Vec<Self> {
        Vec::<T>::small().into_iter().chain(Vec::<T>::dom()).map(|v| v.into_iter().collect()).collect()
    }
    fn small() -> Vec<Self> {
        Vec::<T>::small().into_iter().map(|v| v.into_iter().collect()).collect()
    }
    fn biteq(&self, o: &Self) -> bool {
        self == o
    }
}
impl<T: Dom> Dom for Option<T> {
    fn dom() -> Vec<Self> {
        let mut v = vec![None];
        v.extend(T::dom().into_iter().map(Some));
        v
    }
    fn small() -> Vec<Self> {
        let mut v = vec![None];
        v.extend(T::small().into_iter().take(2).map(Some));
        v
    }
    fn biteq(&self, o: &Self) -> bool {
        match (self, o) {
            (None, None) => true,
            (Some(a), Some(b)) => a.biteq(b),
            _ => false,
        }
    }
}
impl<T: Dom, E: Dom> Dom for Result<T, E> {
    fn dom() -> Vec<Self> {
        T::dom().into_iter().map(Ok).chain(E::dom().into_iter().map(Err)).collect()
    }
    fn small() -> Vec<Self> {
        T::small().into_iter().take(2).map(Ok).chain(E::small().into_iter().take(2).map(Err)).collect()
    }
    fn biteq(&self, o: &Self) -> bool {
        match (self, o) {
            (Ok(a), Ok(b)) => a.biteq(b),
            (Err(a), Err(b)) => a.biteq(b),
            _ => false,
        }
    }
}
impl<T: Dom + Clone> Dom for std::ops::Range<T> {
    fn dom() -> Vec<Self> {
        let s = T::small();
        let mut out = vec![];
        for a in &s {
            for b in &s {
                out.push(a.clone()..b.clone());
            }
        }
        out
    }
    fn biteq(&self, o: &Self) -> bool {
        self.start.biteq(&o.start) && self.end.biteq(&o.end)
    }
}

impl<T: Dom> Dom for Box<T> {
    fn dom() -> Vec<Self> {
        T::dom().into_iter().map(Box::new).collect()
    }
    fn small() -> Vec<Self> {
        T::small().into_iter().map(Box::new).collect()
    }
    fn biteq(&self, o: &Self) -> bool {
        (**self).biteq(&**o)
    }
}
impl<K: Dom + Ord + Clone, V: Dom + Clone> Dom for BTreeMap<K, V> {
    fn dom() -> Vec<Self> {
        let ks = K::small();
        let vs = V::small();
        let mut out = vec![BTreeMap::new()];
        for k in &ks {
            for v in &vs {
                out.push([(k.clone(), v.clone())].into_iter().collect());
            }
        }
        out.push(ks.iter().cloned().zip(vs.iter().cloned().cycle()).collect());
        out
    }
    fn small() -> Vec<Self> {
        let ks = K::small();
        let vs = V::small();
        vec![BTreeMap::new(), ks.iter().cloned().zip(vs.iter().cloned().cycle()).collect()]
    }
    fn biteq(&self, o: &Self) -> bool {
        self.len() == o.len() && self.iter().zip(o).all(|((a, b), (c, d))| a.biteq(c) && b.biteq(d))
    }
}
/// HashMaps: at most one entry, so iteration order is not a hidden source of nondeterminism
impl<K: Dom + std::hash::Hash + Eq + Clone, V: Dom + Clone> Dom for HashMap<K, V> {
    fn dom() -> Vec<Self> {
        let mut out = vec![HashMap::new()];
        for k in K::small() {
            for v in V::small() {
                out.push([(k.clone(), v.clone())].into_iter().collect());
            }
        }
        out
    }
    fn small() -> Vec<Self> {
        let k = K::small();
        let v = V::small();
        vec![HashMap::new(), [(k[0].clone(), v[0].clone())].into_iter().collect()]
    }
    fn biteq(&self, o: &Self) -> bool {
        self.len() == o.len() && self.iter().all(|(k, v)| o.get(k).map(|w| v.biteq(w)).unwrap_or(false))
    }
}

macro_rules! dom_tuple {
    ($(($($n:ident $i:tt),+))*) => {$(
        impl<$($n: Dom + Clone),+> Dom for ($($n,)+) {
            fn dom() -> Vec<Self> {
                let mut acc: Vec<Self> = vec![];
                dom_tuple!(@prod acc; (); $($n)+);
                acc
            }
            fn small() -> Vec<Self> {
                let d = Self::dom();
                let n = d.len();
                if n > 2 { vec![d[0].clone(), d[n - 1].clone()] } else { d }
            }
            fn biteq(&self, o: &Self) -> bool { true $(&& self.$i.biteq(&o.$i))+ }
        }
    )*};
    (@prod $acc:ident; ($($done:ident)*); $h:ident $($t:ident)*) => {
        #[allow(non_snake_case)]
        for $h in <$h as Dom>::small() { dom_tuple!(@prod $acc; ($($done)* $h); $($t)*); }
    };
    (@prod $acc:ident; ($($done:ident)*); ) => { $acc.push(($($done.clone(),)*)); };
}
dom_tuple! {
    (A 0)
    (A 0, B 1)
    (A 0, B 1, C 2)
    (A 0, B 1, C 2, D 3)
    (A 0, B 1, C 2, D 3, E 4)
    (A 0, B 1, C 2, D 3, E 4, F 5)
}

impl<T: Dom + Clone, const N: usize> Dom for [T; N] {
    fn dom() -> Vec<Self> {
        let e = T::small();
        let mut out = vec![];
        if N == 0 {
            out.push(std::array::from_fn(|_| unreachable!()));
            return out;
        }
        // all-same arrays plus arrays varying one position (complete for N<=2 over `small`)
        if N <= 3 {
            let mut idx = [0usize; 8];
            loop {
                out.push(std::array::from_fn(|i| e[idx[i]].clone()));
                let mut i = 0;
                loop {
                    if i == N {
                        return out;
                    }
                    idx[i] += 1;
                    if idx[i] < e.len() {
                        break;
                    }
                    idx[i] = 0;
                    i += 1;
                }
            }
        }
        for a in &e {
            out.push(std::array::from_fn(|_| a.clone()));
        }
        for p in 0..N {
            out.push(std::array::from_fn(|i| if i == p { e[e.len() - 1].clone() } else { e[0].clone() }));
        }
        out
    }
    fn small() -> Vec<Self> {
        let e = T::small();
        if N == 0 {
            return vec![std::array::from_fn(|_| unreachable!())];
        }
        vec![std::array::from_fn(|_| e[0].clone()), std::array::from_fn(|_| e[e.len() - 1].clone())]
    }
    fn biteq(&self, o: &Self) -> bool {
        self.iter().zip(o.iter()).all(|(a, b)| a.biteq(b))
    }
}

// ---------------------------------------------------------------------------------------------
// derived types (serde-derive output)
// ---------------------------------------------------------------------------------------------

macro_rules! derived_struct {
    ($(#[$m:meta])* struct $name:ident { $($f:ident : $t:ty),* }) => {
        $(#[$m])*
        #[derive(Serialize, Deserialize, Debug, PartialEq, Clone)]
        pub struct $name { $(pub $f: $t),* }
        impl Dom for $name {
            fn dom() -> Vec<Self> {
                let mut acc = vec![];
                derived_struct!(@prod acc; $name; (); $($f : $t),*);
                acc
            }
            fn small() -> Vec<Self> { let d = Self::dom(); let n = d.len(); if n > 2 { vec![d[0].clone(), d[n-1].clone()] } else { d } }
            fn biteq(&self, o: &Self) -> bool { true $(&& self.$f.biteq(&o.$f))* }
        }
    };
    (@prod $acc:ident; $name:ident; ($($done:ident)*); $h:ident : $ht:ty $(, $f:ident : $t:ty)*) => {
        for $h in <$ht as Dom>::small() { derived_struct!(@prod $acc; $name; ($($done)* $h); $($f : $t),*); }
    };
    (@prod $acc:ident; $name:ident; ($($done:ident)*); ) => { $acc.push($name { $($done: $done.clone()),* }); };
}

#[derive(Serialize, Deserialize, Debug, PartialEq, Clone, Copy)]
pub struct UnitS;
impl Dom for UnitS {
    fn dom() -> Vec<Self> {
        vec![UnitS]
    }
    fn biteq(&self, _: &Self) -> bool {
        true
    }
}
#[derive(Serialize, Deserialize, Debug, PartialEq, Clone)]
pub struct NewT(pub u32);
impl Dom for NewT {
    fn dom() -> Vec<Self> {
        u32::dom().into_iter().map(NewT).collect()
    }
    fn biteq(&self, o: &Self) -> bool {
        self == o
    }
}
#[derive(Serialize, Deserialize, Debug, PartialEq, Clone)]
pub struct TupS(pub u8, pub i16, pub String);
impl Dom for TupS {
    fn dom() -> Vec<Self> {
        <(u8, i16, String)>::dom().into_iter().map(|(a, b, c)| TupS(a, b, c)).collect()
    }
    fn biteq(&self, o: &Self) -> bool {
        self == o
    }
}
#[derive(Serialize, Deserialize, Debug, PartialEq, Clone)]
pub struct EmptyTupS();
impl Dom for EmptyTupS {
    fn dom() -> Vec<Self> {
        vec![EmptyTupS()]
    }
    fn biteq(&self, _: &Self) -> bool {
        true
    }
}
#[derive(Serialize, Deserialize, Debug, PartialEq, Clone)]
pub struct EmptyNamedS {}
impl Dom for EmptyNamedS {
    fn dom() -> Vec<Self> {
        vec![EmptyNamedS {}]
    }
    fn biteq(&self, _: &Self) -> bool {
        true
    }
}
derived_struct! { struct NamedS { a: u32, b: bool, c: Option<i64>, d: String } }
derived_struct! { struct FloatS { x: f32, y: f64, z: i128 } }
derived_struct! { struct NestedS { inner: NamedS, list: Vec<TupS>, e: SmallE } }
derived_struct! { struct MapS { m: BTreeMap<String, u16>, n: BTreeMap<u8, Vec<u8>> } }

#[derive(Serialize, Deserialize, Debug, PartialEq, Clone)]
pub struct GenericS<T> {
    pub t: T,
    pub n: u16,
}
impl<T: Dom + Clone + PartialEq> Dom for GenericS<T> {
    fn dom() -> Vec<Self> {
        let mut v = vec![];
        for t in T::small() {
            for n in u16::small() {
                v.push(GenericS { t: t.clone(), n });
            }
        }
        v
    }
    fn biteq(&self, o: &Self) -> bool {
        self.t.biteq(&o.t) && self.n == o.n
    }
}

#[derive(Serialize, Deserialize, Debug, PartialEq, Clone)]
pub enum SmallE {
    A,
    B(u16),
    C(u8, i32),
    D { x: u64, y: Option<bool> },
    E(),
    F {},
}
impl Dom for SmallE {
    fn dom() -> Vec<Self> {
        let mut v = vec![SmallE::A, SmallE::E(), SmallE::F {}];
        v.extend(u16::dom().into_iter().map(SmallE::B));
        for a in u8::small() {
            for b in i32::small() {
                v.push(SmallE::C(a, b));
            }
        }
        for x in u64::small() {
            for y in Option::<bool>::dom() {
                v.push(SmallE::D { x, y });
            }
        }
        v
    }
    fn small() -> Vec<Self> {
        vec![SmallE::A, SmallE::B(300), SmallE::D { x: u64::MAX, y: Some(true) }]
    }
    fn biteq(&self, o: &Self) -> bool {
        self == o
    }
}

#[derive(Serialize, Deserialize, Debug, PartialEq, Clone)]
pub enum NestedE {
    Leaf(SmallE),
    Pair(Box<SmallE>, Option<SmallE>),
    Rec { inner: Vec<SmallE>, f: f32 },
}
impl Dom for NestedE {
    fn dom() -> Vec<Self> {
        let mut v: Vec<Self> = SmallE::dom().into_iter().map(NestedE::Leaf).collect();
        for a in SmallE::small() {
            for b in Option::<SmallE>::small() {
                v.push(NestedE::Pair(Box::new(a.clone()), b));
            }
        }
        for i in Vec::<SmallE>::small() {
            for f in f32::small() {
                v.push(NestedE::Rec { inner: i.clone(), f });
            }
        }
        v
    }
    fn biteq(&self, o: &Self) -> bool {
        match (self, o) {
            (NestedE::Rec { inner: a, f: x }, NestedE::Rec { inner: b, f: y }) => a == b && x.to_bits() == y.to_bits(),
            _ => self == o,
        }
    }
}

/// a zero-sized type whose encoding is NOT empty (one variant => discriminant byte 0x00)
#[derive(Serialize, Deserialize, Debug, PartialEq, Clone, Copy)]
pub enum OneUnit {
    Only,
}
impl Dom for OneUnit {
    fn dom() -> Vec<Self> {
        vec![OneUnit::Only]
    }
    fn biteq(&self, _: &Self) -> bool {
        true
    }
}

macro_rules! big_enum {
    ($name:ident; $($v:ident)*) => {
        #[derive(Serialize, Deserialize, Debug, PartialEq, Clone, Copy)]
        pub enum $name { $($v),* }
        impl Dom for $name {
            fn dom() -> Vec<Self> { vec![$($name::$v),*] }
            fn biteq(&self, o: &Self) -> bool { self == o }
        }
    };
}
big_enum!(E130;
 V0 V1 V2 V3 V4 V5 V6 V7 V8 V9 V10 V11 V12 V13 V14 V15 V16 V17 V18 V19 V20 V21 V22 V23 V24 V25 V26 V27 V28 V29 V30 V31
 V32 V33 V34 V35 V36 V37 V38 V39 V40 V41 V42 V43 V44 V45 V46 V47 V48 V49 V50 V51 V52 V53 V54 V55 V56 V57 V58 V59 V60 V61 V62 V63
 V64 V65 V66 V67 V68 V69 V70 V71 V72 V73 V74 V75 V76 V77 V78 V79 V80 V81 V82 V83 V84 V85 V86 V87 V88 V89 V90 V91 V92 V93 V94 V95
 V96 V97 V98 V99 V100 V101 V102 V103 V104 V105 V106 V107 V108 V109 V110 V111 V112 V113 V114 V115 V116 V117 V118 V119 V120 V121 V122 V123 V124 V125 V126 V127
 V128 V129);

// ---------------------------------------------------------------------------------------------
// the type list
// ---------------------------------------------------------------------------------------------

/// A type whose representation depends on `is_human_readable()` (like uuid, IP addresses, chrono ...):
/// a single byte in a binary format, a string in a human-readable one. It round-trips only when the
/// serializer and the deserializer give the same answer.
#[derive(Clone, Debug, PartialEq)]
pub struct HrProbe(pub u8);
impl Serialize for HrProbe {
    fn serialize<S: serde::Serializer>(&self, s: S) -> Result<S::Ok, S::Error> {
        if s.is_human_readable() {
            s.serialize_str(&format!("probe-{}", self.0))
        } else {
            s.serialize_u8(self.0)
        }
    }
}
impl<'de> Deserialize<'de> for HrProbe {
    fn deserialize<D: serde::Deserializer<'de>>(d: D) -> Result<Self, D::Error> {
        if d.is_human_readable() {
            let s = String::deserialize(d)?;
            s.strip_prefix("probe-").and_then(|n| n.parse().ok()).map(HrProbe).ok_or_else(|| serde::de::Error::custom("bad probe"))
        } else {
            u8::deserialize(d).map(HrProbe)
        }
    }
}
impl Dom for HrProbe {
    fn dom() -> Vec<Self> {
        vec![HrProbe(0), HrProbe(7), HrProbe(255)]
    }
    fn biteq(&self, o: &Self) -> bool {
        self == o
    }
}
impl Dom for uuid::Uuid {
    fn dom() -> Vec<Self> {
        vec![uuid::Uuid::nil(), uuid::Uuid::from_bytes([0xFF; 16]), uuid::Uuid::from_bytes([1, 2, 3, 4, 5, 6, 7, 8, 9, 10, 11, 12, 13, 14, 15, 16])]
    }
    fn biteq(&self, o: &Self) -> bool {
        self == o
    }
}

pub trait OwnedTy: Serialize + DeserializeOwned + Dom + Debug + Clone + 'static {}
impl<T: Serialize + DeserializeOwned + Dom + Debug + Clone + 'static> OwnedTy for T {}

pub trait OwnedVisitor {
    fn visit<T: OwnedTy>(&mut self, name: &'static str);
}

macro_rules! visit_all {
    ($v:ident; $($t:ty),* $(,)?) => { $( $v.visit::<$t>(stringify!($t)); )* };
}

pub fn for_each_owned_type<V: OwnedVisitor>(v: &mut V) {
    visit_all!(v;
        bool, u8, u16, u32, u64, u128, usize, i8, i16, i32, i64, i128, isize, f32, f64, char, (), String,
        Option<u8>, Option<Option<u16>>, Option<String>, Option<()>, Result<u32, String>,
        Vec<u8>, Vec<u64>, Vec<(u8, u16)>, Vec<String>, Vec<Vec<u8>>, Vec<()>, Vec<Option<i32>>, Box<[u32]>, VecDeque<u16>, BTreeSet<u32>,
        (u8,), (u8, u16), (i8, i64, String), (bool, char, f32, u128), ((), u8, ()),
        [u8; 0], [u8; 1], [u16; 3], [i64; 4], [Option<u8>; 2],
        BTreeMap<String, u16>, BTreeMap<u16, String>, BTreeMap<u8, Vec<u8>>, HashMap<String, u32>, HashMap<u64, bool>,
        Box<u64>, Box<NamedS>,
        UnitS, NewT, TupS, EmptyTupS, EmptyNamedS, NamedS, FloatS, NestedS, MapS, GenericS<u8>, GenericS<Vec<i16>>, GenericS<SmallE>,
        SmallE, NestedE, E130, Vec<SmallE>, Option<NestedE>, (SmallE, NamedS),
        OneUnit, (OneUnit, OneUnit), [OneUnit; 3], Option<OneUnit>, Vec<OneUnit>,
        HrProbe, (u8, HrProbe), Vec<HrProbe>, uuid::Uuid, Option<uuid::Uuid>,
    );
}
