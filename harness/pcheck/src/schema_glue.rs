//! Conversions between the harness-side schema AST (`St`) and postcard-schema's borrowed / owned trees.

use postcard_schema::schema::owned::{OwnedData, OwnedDataModelType, OwnedNamedField, OwnedVariant};
use postcard_schema::schema::{Data, DataModelType, NamedField, Variant};
use vmodel::schema::{Sd, St};
use vmodel::shape::{Shape, VShape};

/// Arena owning the nodes of borrowed trees handed out as `&'static`. The references are valid
/// until the arena is dropped; callers must not keep them longer (enforced by scoping in the checks).
#[derive(Default)]
pub struct Arena {
    dmts: Vec<*mut DataModelType>,
    dmt_lists: Vec<*mut [&'static DataModelType]>,
    strs: Vec<*mut str>,
    fields: Vec<*mut NamedField>,
    field_lists: Vec<*mut [&'static NamedField]>,
    variants: Vec<*mut Variant>,
    variant_lists: Vec<*mut [&'static Variant]>,
}

impl Arena {
    fn dmt(&mut self, d: DataModelType) -> &'static DataModelType {
        let p = Box::into_raw(Box::new(d));
        self.dmts.push(p);
        unsafe { &*p }
    }
    fn s(&mut self, s: &str) -> &'static str {
        let p = Box::into_raw(s.to_string().into_boxed_str());
        self.strs.push(p);
        unsafe { &*p }
    }
    fn list(&mut self, l: Vec<&'static DataModelType>) -> &'static [&'static DataModelType] {
        let p = Box::into_raw(l.into_boxed_slice());
        self.dmt_lists.push(p);
        unsafe { &*p }
    }
    fn data(&mut self, d: &Sd) -> Data {
        match d {
            Sd::Unit => Data::Unit,
            Sd::Newtype(i) => Data::Newtype(self.build(i)),
            Sd::Tuple(l) => {
                let v: Vec<_> = l.iter().map(|x| self.build(x)).collect();
                Data::Tuple(self.list(v))
            }
            Sd::Struct(l) => {
                let mut v: Vec<&'static NamedField> = vec![];
                for (n, t) in l {
                    let nf = NamedField { name: self.s(n), ty: self.build(t) };
                    let p = Box::into_raw(Box::new(nf));
                    self.fields.push(p);
                    v.push(unsafe { &*p });
                }
                let p = Box::into_raw(v.into_boxed_slice());
                self.field_lists.push(p);
                Data::Struct(unsafe { &*p })
            }
        }
    }
    pub fn build(&mut self, t: &St) -> &'static DataModelType {
        let d = match t {
            St::Bool => DataModelType::Bool,
            St::I8 => DataModelType::I8,
            St::U8 => DataModelType::U8,
            St::I16 => DataModelType::I16,
            St::I32 => DataModelType::I32,
            St::I64 => DataModelType::I64,
            St::I128 => DataModelType::I128,
            St::U16 => DataModelType::U16,
            St::U32 => DataModelType::U32,
            St::U64 => DataModelType::U64,
            St::U128 => DataModelType::U128,
            St::Usize => DataModelType::Usize,
            St::Isize => DataModelType::Isize,
            St::F32 => DataModelType::F32,
            St::F64 => DataModelType::F64,
            St::Char => DataModelType::Char,
            St::String => DataModelType::String,
            St::ByteArray => DataModelType::ByteArray,
            St::Unit => DataModelType::Unit,
            St::Schema => DataModelType::Schema,
            St::Option(i) => DataModelType::Option(self.build(i)),
            St::Seq(i) => DataModelType::Seq(self.build(i)),
            St::Tuple(l) => {
                let v: Vec<_> = l.iter().map(|x| self.build(x)).collect();
                DataModelType::Tuple(self.list(v))
            }
            St::Map(k, v) => DataModelType::Map { key: self.build(k), val: self.build(v) },
            St::Struct(n, d) => DataModelType::Struct { name: self.s(n), data: self.data(d) },
            St::Enum(n, vs) => {
                let mut v: Vec<&'static Variant> = vec![];
                for (vn, d) in vs {
                    let var = Variant { name: self.s(vn), data: self.data(d) };
                    let p = Box::into_raw(Box::new(var));
                    self.variants.push(p);
                    v.push(unsafe { &*p });
                }
                let p = Box::into_raw(v.into_boxed_slice());
                self.variant_lists.push(p);
                DataModelType::Enum { name: self.s(n), variants: unsafe { &*p } }
            }
        };
        self.dmt(d)
    }
}

impl Drop for Arena {
    fn drop(&mut self) {
        unsafe {
            for p in self.dmts.drain(..) {
                drop(Box::from_raw(p));
            }
            for p in self.dmt_lists.drain(..) {
                drop(Box::from_raw(p));
            }
            for p in self.strs.drain(..) {
                drop(Box::from_raw(p));
            }
            for p in self.fields.drain(..) {
                drop(Box::from_raw(p));
            }
            for p in self.field_lists.drain(..) {
                drop(Box::from_raw(p));
            }
            for p in self.variants.drain(..) {
                drop(Box::from_raw(p));
            }
            for p in self.variant_lists.drain(..) {
                drop(Box::from_raw(p));
            }
        }
    }
}

fn odata(d: &Sd) -> OwnedData {
    match d {
        Sd::Unit => OwnedData::Unit,
        Sd::Newtype(i) => OwnedData::Newtype(Box::new(to_owned(i))),
        Sd::Tuple(l) => OwnedData::Tuple(l.iter().map(to_owned).collect()),
        Sd::Struct(l) => OwnedData::Struct(l.iter().map(|(n, t)| OwnedNamedField { name: n.as_str().into(), ty: to_owned(t) }).collect()),
    }
}

/// the expected owned tree, built directly from the AST (independent of the From impl under test)
pub fn to_owned(t: &St) -> OwnedDataModelType {
    use OwnedDataModelType as O;
    match t {
        St::Bool => O::Bool,
        St::I8 => O::I8,
        St::U8 => O::U8,
        St::I16 => O::I16,
        St::I32 => O::I32,
        St::I64 => O::I64,
        St::I128 => O::I128,
        St::U16 => O::U16,
        St::U32 => O::U32,
        St::U64 => O::U64,
        St::U128 => O::U128,
        St::Usize => O::Usize,
        St::Isize => O::Isize,
        St::F32 => O::F32,
        St::F64 => O::F64,
        St::Char => O::Char,
        St::String => O::String,
        St::ByteArray => O::ByteArray,
        St::Unit => O::Unit,
        St::Schema => O::Schema,
        St::Option(i) => O::Option(Box::new(to_owned(i))),
        St::Seq(i) => O::Seq(Box::new(to_owned(i))),
        St::Tuple(l) => O::Tuple(l.iter().map(to_owned).collect()),
        St::Map(k, v) => O::Map { key: Box::new(to_owned(k)), val: Box::new(to_owned(v)) },
        St::Struct(n, d) => O::Struct { name: n.as_str().into(), data: odata(d) },
        St::Enum(n, vs) => O::Enum { name: n.as_str().into(), variants: vs.iter().map(|(vn, d)| OwnedVariant { name: vn.as_str().into(), data: odata(d) }).collect() },
    }
}

fn sdata(d: &Data) -> Sd {
    match d {
        Data::Unit => Sd::Unit,
        Data::Newtype(i) => Sd::Newtype(Box::new(from_static(i))),
        Data::Tuple(l) => Sd::Tuple(l.iter().map(|x| from_static(x)).collect()),
        Data::Struct(l) => Sd::Struct(l.iter().map(|f| (f.name.to_string(), from_static(f.ty))).collect()),
    }
}

/// AST of a compile-time schema
pub fn from_static(t: &DataModelType) -> St {
    use DataModelType as D;
    match t {
        D::Bool => St::Bool,
        D::I8 => St::I8,
        D::U8 => St::U8,
        D::I16 => St::I16,
        D::I32 => St::I32,
        D::I64 => St::I64,
        D::I128 => St::I128,
        D::U16 => St::U16,
        D::U32 => St::U32,
        D::U64 => St::U64,
        D::U128 => St::U128,
        D::Usize => St::Usize,
        D::Isize => St::Isize,
        D::F32 => St::F32,
        D::F64 => St::F64,
        D::Char => St::Char,
        D::String => St::String,
        D::ByteArray => St::ByteArray,
        D::Unit => St::Unit,
        D::Schema => St::Schema,
        D::Option(i) => St::Option(Box::new(from_static(i))),
        D::Seq(i) => St::Seq(Box::new(from_static(i))),
        D::Tuple(l) => St::Tuple(l.iter().map(|x| from_static(x)).collect()),
        D::Map { key, val } => St::Map(Box::new(from_static(key)), Box::new(from_static(val))),
        D::Struct { name, data } => St::Struct(name.to_string(), sdata(data)),
        D::Enum { name, variants } => St::Enum(name.to_string(), variants.iter().map(|v| (v.name.to_string(), sdata(&v.data))).collect()),
    }
}

fn shape_list(l: &[St]) -> Option<Vec<Shape>> {
    l.iter().map(shape_of).collect()
}

/// the serde shape a schema describes (None if it contains the schema-of-schema kind)
pub fn shape_of(t: &St) -> Option<Shape> {
    Some(match t {
        St::Bool => Shape::Bool,
        St::I8 => Shape::I8,
        St::U8 => Shape::U8,
        St::I16 => Shape::I16,
        St::I32 => Shape::I32,
        St::I64 => Shape::I64,
        St::I128 => Shape::I128,
        St::U16 => Shape::U16,
        St::U32 => Shape::U32,
        St::U64 => Shape::U64,
        St::U128 => Shape::U128,
        St::Usize => Shape::U64,
        St::Isize => Shape::I64,
        St::F32 => Shape::F32,
        St::F64 => Shape::F64,
        St::Char => Shape::Char,
        St::String => Shape::Str,
        St::ByteArray => Shape::Bytes,
        St::Unit => Shape::Unit,
        St::Schema => return None,
        St::Option(i) => Shape::Option(Box::new(shape_of(i)?)),
        St::Seq(i) => Shape::Seq(Box::new(shape_of(i)?)),
        St::Tuple(l) => Shape::Tuple(shape_list(l)?),
        St::Map(k, v) => Shape::Map(Box::new(shape_of(k)?), Box::new(shape_of(v)?)),
        St::Struct(_, d) => match d {
            Sd::Unit => Shape::UnitStruct,
            Sd::Newtype(i) => Shape::NewtypeStruct(Box::new(shape_of(i)?)),
            Sd::Tuple(l) => Shape::TupleStruct(shape_list(l)?),
            Sd::Struct(l) => Shape::Struct(l.iter().map(|(_, t)| shape_of(t)).collect::<Option<_>>()?),
        },
        St::Enum(_, vs) => {
            let mut out = vec![];
            for (i, (_, d)) in vs.iter().enumerate() {
                out.push((
                    i as u32,
                    match d {
                        Sd::Unit => VShape::Unit,
                        Sd::Newtype(t) => VShape::Newtype(Box::new(shape_of(t)?)),
                        Sd::Tuple(l) => VShape::Tuple(shape_list(l)?),
                        Sd::Struct(l) => VShape::Struct(l.iter().map(|(_, t)| shape_of(t)).collect::<Option<_>>()?),
                    },
                ));
            }
            Shape::Enum(out)
        }
    })
}
