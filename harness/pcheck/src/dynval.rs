//! `Dyn`: a `Deserialize`/`Serialize` type whose shape is chosen at run time (thread-local),
//! so the real public entry points (`from_bytes::<Dyn>`, `feed::<Dyn>`, ...) can be driven
//! over enumerated shapes.

use serde::de::DeserializeSeed;
use serde::{Deserialize, Serialize};
use std::cell::Cell;
use vmodel::glue::{AsData, Borrows, ShapeSeed};
use vmodel::shape::{Shape, Val};

thread_local! {
    static CUR: Cell<*const Shape> = const { Cell::new(std::ptr::null()) };
    static BORROWS: Cell<*const Borrows> = const { Cell::new(std::ptr::null()) };
}

#[derive(Debug, PartialEq, Clone)]
pub struct Dyn(pub Val);

impl<'de> Deserialize<'de> for Dyn {
    fn deserialize<D: serde::Deserializer<'de>>(d: D) -> Result<Self, D::Error> {
        let p = CUR.with(|c| c.get());
        assert!(!p.is_null(), "Dyn deserialized outside with_shape");
        let shape: &Shape = unsafe { &*p };
        let b = BORROWS.with(|c| c.get());
        let seed = ShapeSeed { shape, borrows: if b.is_null() { None } else { Some(unsafe { &*b }) } };
        seed.deserialize(d).map(Dyn)
    }
}

impl Serialize for Dyn {
    fn serialize<S: serde::Serializer>(&self, s: S) -> Result<S::Ok, S::Error> {
        AsData(&self.0).serialize(s)
    }
}

struct Reset(*const Shape, *const Borrows);
impl Drop for Reset {
    fn drop(&mut self) {
        CUR.with(|c| c.set(self.0));
        BORROWS.with(|c| c.set(self.1));
    }
}

pub fn with_shape<R>(s: &Shape, f: impl FnOnce() -> R) -> R {
    let _r = Reset(CUR.with(|c| c.replace(s as *const Shape)), BORROWS.with(|c| c.get()));
    f()
}

pub fn with_shape_borrows<R>(s: &Shape, b: &Borrows, f: impl FnOnce() -> R) -> R {
    let _r = Reset(CUR.with(|c| c.replace(s as *const Shape)), BORROWS.with(|c| c.replace(b as *const Borrows)));
    f()
}
