//! Framings (plain / COBS / CRC of each width): reference transforms and the real entry points.

use crc::Crc;
use postcard::ser_flavors::crc as scrc;
use serde::Serialize;
use vmodel::codecs::{cobs_encode, crc_bitwise, le_bytes, CrcParams, CRC_CATALOG};

pub static CRC8_A: Crc<u8> = Crc::<u8>::new(&crc::CRC_8_SMBUS);
pub static CRC8_B: Crc<u8> = Crc::<u8>::new(&crc::CRC_8_BLUETOOTH);
pub static CRC16_A: Crc<u16> = Crc::<u16>::new(&crc::CRC_16_XMODEM);
pub static CRC16_B: Crc<u16> = Crc::<u16>::new(&crc::CRC_16_IBM_SDLC);
pub static CRC32_A: Crc<u32> = Crc::<u32>::new(&crc::CRC_32_BZIP2);
pub static CRC32_B: Crc<u32> = Crc::<u32>::new(&crc::CRC_32_ISCSI);
pub static CRC32_C: Crc<u32> = Crc::<u32>::new(&crc::CRC_32_ISO_HDLC);
pub static CRC64_A: Crc<u64> = Crc::<u64>::new(&crc::CRC_64_ECMA_182);
pub static CRC64_B: Crc<u64> = Crc::<u64>::new(&crc::CRC_64_XZ);
pub static CRC128_A: Crc<u128> = Crc::<u128>::new(&crc::CRC_82_DARC);

#[derive(Clone, Copy, Debug, PartialEq, Eq)]
pub enum CrcAlgo {
    C8A,
    C8B,
    C16A,
    C16B,
    C32A,
    C32B,
    C32C,
    C64A,
    C64B,
    C128A,
}

pub const ALL_CRC: [CrcAlgo; 10] = [
    CrcAlgo::C8A,
    CrcAlgo::C8B,
    CrcAlgo::C16A,
    CrcAlgo::C16B,
    CrcAlgo::C32A,
    CrcAlgo::C32B,
    CrcAlgo::C32C,
    CrcAlgo::C64A,
    CrcAlgo::C64B,
    CrcAlgo::C128A,
];
/// one algorithm per width
pub const ONE_PER_WIDTH: [CrcAlgo; 5] = [CrcAlgo::C8A, CrcAlgo::C16B, CrcAlgo::C32B, CrcAlgo::C64A, CrcAlgo::C128A];

impl CrcAlgo {
    pub fn params(self) -> &'static CrcParams {
        let name = match self {
            CrcAlgo::C8A => "CRC_8_SMBUS",
            CrcAlgo::C8B => "CRC_8_BLUETOOTH",
            CrcAlgo::C16A => "CRC_16_XMODEM",
            CrcAlgo::C16B => "CRC_16_IBM_SDLC",
            CrcAlgo::C32A => "CRC_32_BZIP2",
            CrcAlgo::C32B => "CRC_32_ISCSI",
            CrcAlgo::C32C => "CRC_32_ISO_HDLC",
            CrcAlgo::C64A => "CRC_64_ECMA_182",
            CrcAlgo::C64B => "CRC_64_XZ",
            CrcAlgo::C128A => "CRC_82_DARC",
        };
        CRC_CATALOG.iter().find(|p| p.name == name).unwrap()
    }
    /// checksum width on the wire in bytes (size_of the integer type)
    pub fn wire_bytes(self) -> usize {
        match self {
            CrcAlgo::C8A | CrcAlgo::C8B => 1,
            CrcAlgo::C16A | CrcAlgo::C16B => 2,
            CrcAlgo::C32A | CrcAlgo::C32B | CrcAlgo::C32C => 4,
            CrcAlgo::C64A | CrcAlgo::C64B => 8,
            CrcAlgo::C128A => 16,
        }
    }
    /// width of the checksum in bits (what "burst up to the width" refers to)
    pub fn width_bits(self) -> u32 {
        self.params().width
    }
    pub fn ref_checksum_le(self, data: &[u8]) -> Vec<u8> {
        le_bytes(crc_bitwise(self.params(), data), self.wire_bytes())
    }
}

#[derive(Clone, Copy, Debug, PartialEq, Eq)]
pub enum Framing {
    Plain,
    Cobs,
    Crc(CrcAlgo),
}

impl Framing {
    pub fn name(self) -> String {
        match self {
            Framing::Plain => "plain".into(),
            Framing::Cobs => "cobs".into(),
            Framing::Crc(a) => format!("crc:{}", a.params().name),
        }
    }
    /// reference output for a plain encoding
    pub fn reference(self, plain: &[u8]) -> Vec<u8> {
        match self {
            Framing::Plain => plain.to_vec(),
            Framing::Cobs => {
                let mut v = cobs_encode(plain);
                v.push(0);
                v
            }
            Framing::Crc(a) => {
                let mut v = plain.to_vec();
                v.extend(a.ref_checksum_le(plain));
                v
            }
        }
    }
    /// real: serialise into a caller slice
    pub fn to_slice<'a, T: Serialize + ?Sized>(self, v: &T, buf: &'a mut [u8]) -> postcard::Result<&'a mut [u8]> {
        match self {
            Framing::Plain => postcard::to_slice(v, buf),
            Framing::Cobs => postcard::to_slice_cobs(v, buf),
            Framing::Crc(a) => match a {
                CrcAlgo::C8A => scrc::to_slice_u8(v, buf, CRC8_A.digest()),
                CrcAlgo::C8B => scrc::to_slice_u8(v, buf, CRC8_B.digest()),
                CrcAlgo::C16A => scrc::to_slice_u16(v, buf, CRC16_A.digest()),
                CrcAlgo::C16B => scrc::to_slice_u16(v, buf, CRC16_B.digest()),
                CrcAlgo::C32A => scrc::to_slice_u32(v, buf, CRC32_A.digest()),
                CrcAlgo::C32B => scrc::to_slice_u32(v, buf, CRC32_B.digest()),
                CrcAlgo::C32C => postcard::to_slice_crc32(v, buf, CRC32_C.digest()),
                CrcAlgo::C64A => scrc::to_slice_u64(v, buf, CRC64_A.digest()),
                CrcAlgo::C64B => scrc::to_slice_u64(v, buf, CRC64_B.digest()),
                CrcAlgo::C128A => scrc::to_slice_u128(v, buf, CRC128_A.digest()),
            },
        }
    }
    /// real: serialise into a fixed-capacity heapless vector
    pub fn to_hvec<T: Serialize + ?Sized, const B: usize>(self, v: &T) -> postcard::Result<heapless::Vec<u8, B>> {
        match self {
            Framing::Plain => postcard::to_vec::<T, B>(v),
            Framing::Cobs => postcard::to_vec_cobs::<T, B>(v),
            Framing::Crc(a) => match a {
                CrcAlgo::C8A => scrc::to_vec_u8::<T, B>(v, CRC8_A.digest()),
                CrcAlgo::C8B => scrc::to_vec_u8::<T, B>(v, CRC8_B.digest()),
                CrcAlgo::C16A => scrc::to_vec_u16::<T, B>(v, CRC16_A.digest()),
                CrcAlgo::C16B => scrc::to_vec_u16::<T, B>(v, CRC16_B.digest()),
                CrcAlgo::C32A => scrc::to_vec_u32::<T, B>(v, CRC32_A.digest()),
                CrcAlgo::C32B => scrc::to_vec_u32::<T, B>(v, CRC32_B.digest()),
                CrcAlgo::C32C => postcard::to_vec_crc32::<T, B>(v, CRC32_C.digest()),
                CrcAlgo::C64A => scrc::to_vec_u64::<T, B>(v, CRC64_A.digest()),
                CrcAlgo::C64B => scrc::to_vec_u64::<T, B>(v, CRC64_B.digest()),
                CrcAlgo::C128A => scrc::to_vec_u128::<T, B>(v, CRC128_A.digest()),
            },
        }
    }
    /// real: serialise into a growable vector
    pub fn to_allocvec<T: Serialize + ?Sized>(self, v: &T) -> postcard::Result<Vec<u8>> {
        match self {
            Framing::Plain => postcard::to_allocvec(v),
            Framing::Cobs => postcard::to_allocvec_cobs(v),
            Framing::Crc(a) => match a {
                CrcAlgo::C8A => scrc::to_allocvec_u8(v, CRC8_A.digest()),
                CrcAlgo::C8B => scrc::to_allocvec_u8(v, CRC8_B.digest()),
                CrcAlgo::C16A => scrc::to_allocvec_u16(v, CRC16_A.digest()),
                CrcAlgo::C16B => scrc::to_allocvec_u16(v, CRC16_B.digest()),
                CrcAlgo::C32A => scrc::to_allocvec_u32(v, CRC32_A.digest()),
                CrcAlgo::C32B => scrc::to_allocvec_u32(v, CRC32_B.digest()),
                CrcAlgo::C32C => postcard::to_allocvec_crc32(v, CRC32_C.digest()),
                CrcAlgo::C64A => scrc::to_allocvec_u64(v, CRC64_A.digest()),
                CrcAlgo::C64B => scrc::to_allocvec_u64(v, CRC64_B.digest()),
                CrcAlgo::C128A => scrc::to_allocvec_u128(v, CRC128_A.digest()),
            },
        }
    }
}

pub fn all_framings() -> Vec<Framing> {
    let mut v = vec![Framing::Plain, Framing::Cobs];
    v.extend(ALL_CRC.iter().map(|a| Framing::Crc(*a)));
    v
}
pub fn quick_framings() -> Vec<Framing> {
    let mut v = vec![Framing::Plain, Framing::Cobs];
    v.extend(ONE_PER_WIDTH.iter().map(|a| Framing::Crc(*a)));
    // C32C goes through the crate-root convenience wrappers (to_slice_crc32, to_vec_crc32, ...)
    v.push(Framing::Crc(CrcAlgo::C32C));
    v
}

/// CRC-checked decoding through the real entry points. Returns (value, remainder offset).
pub fn crc_take<'a, T: serde::Deserialize<'a>>(a: CrcAlgo, s: &'a [u8]) -> postcard::Result<(T, &'a [u8])> {
    use postcard::de_flavors::crc as dcrc;
    match a {
        CrcAlgo::C8A => dcrc::take_from_bytes_u8(s, CRC8_A.digest()),
        CrcAlgo::C8B => dcrc::take_from_bytes_u8(s, CRC8_B.digest()),
        CrcAlgo::C16A => dcrc::take_from_bytes_u16(s, CRC16_A.digest()),
        CrcAlgo::C16B => dcrc::take_from_bytes_u16(s, CRC16_B.digest()),
        CrcAlgo::C32A => dcrc::take_from_bytes_u32(s, CRC32_A.digest()),
        CrcAlgo::C32B => dcrc::take_from_bytes_u32(s, CRC32_B.digest()),
        CrcAlgo::C32C => postcard::take_from_bytes_crc32(s, CRC32_C.digest()),
        CrcAlgo::C64A => dcrc::take_from_bytes_u64(s, CRC64_A.digest()),
        CrcAlgo::C64B => dcrc::take_from_bytes_u64(s, CRC64_B.digest()),
        CrcAlgo::C128A => dcrc::take_from_bytes_u128(s, CRC128_A.digest()),
    }
}
pub fn crc_from<'a, T: serde::Deserialize<'a>>(a: CrcAlgo, s: &'a [u8]) -> postcard::Result<T> {
    use postcard::de_flavors::crc as dcrc;
    match a {
        CrcAlgo::C8A => dcrc::from_bytes_u8(s, CRC8_A.digest()),
        CrcAlgo::C8B => dcrc::from_bytes_u8(s, CRC8_B.digest()),
        CrcAlgo::C16A => dcrc::from_bytes_u16(s, CRC16_A.digest()),
        CrcAlgo::C16B => dcrc::from_bytes_u16(s, CRC16_B.digest()),
        CrcAlgo::C32A => dcrc::from_bytes_u32(s, CRC32_A.digest()),
        CrcAlgo::C32B => dcrc::from_bytes_u32(s, CRC32_B.digest()),
        CrcAlgo::C32C => postcard::from_bytes_crc32(s, CRC32_C.digest()),
        CrcAlgo::C64A => dcrc::from_bytes_u64(s, CRC64_A.digest()),
        CrcAlgo::C64B => dcrc::from_bytes_u64(s, CRC64_B.digest()),
        CrcAlgo::C128A => dcrc::from_bytes_u128(s, CRC128_A.digest()),
    }
}
