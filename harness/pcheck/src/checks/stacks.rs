//! C20 stacked flavours compose as byte-stream transformers.

use crate::checks::c05::{real_decode, real_plain, value_corpus};
use crate::dynval::{with_shape, Dyn};
use crate::framing::*;
use crate::rt::{hex, trap, Ctx};
use postcard::ser_flavors::crc::CrcModifier;
use postcard::ser_flavors::{AllocVec, Cobs, Flavor, HVec, Slice};
use postcard::serialize_with_flavor;
use rayon::prelude::*;
use serde_json::json;
use std::sync::atomic::{AtomicU64, Ordering};
use vmodel::codecs::{cobs_decode_frame, cobs_encode};
use vmodel::glue::AsData;
use vmodel::shape::*;

/// user flavour implementing only try_push
#[derive(Default)]
pub struct RecPush {
    pub bytes: Vec<u8>,
    pub pushes: u64,
}
impl Flavor for RecPush {
    type Output = (Vec<u8>, u64);
    fn try_push(&mut self, b: u8) -> postcard::Result<()> {
        self.bytes.push(b);
        self.pushes += 1;
        Ok(())
    }
    fn finalize(self) -> postcard::Result<Self::Output> {
        Ok((self.bytes, self.pushes))
    }
}
/// user flavour overriding try_extend
#[derive(Default)]
pub struct RecExtend {
    pub bytes: Vec<u8>,
    pub blocks: Vec<usize>,
}
impl Flavor for RecExtend {
    type Output = (Vec<u8>, Vec<usize>);
    fn try_push(&mut self, b: u8) -> postcard::Result<()> {
        self.bytes.push(b);
        self.blocks.push(1);
        Ok(())
    }
    fn try_extend(&mut self, data: &[u8]) -> postcard::Result<()> {
        self.bytes.extend_from_slice(data);
        self.blocks.push(data.len());
        Ok(())
    }
    fn finalize(self) -> postcard::Result<Self::Output> {
        Ok((self.bytes, self.blocks))
    }
}

/// byte sink that accepts at most `k` bytes per write call (partial writes are legal for both Write traits)
pub struct PieceSink(pub Vec<u8>, pub usize);
impl std::io::Write for PieceSink {
    fn write(&mut self, buf: &[u8]) -> std::io::Result<usize> {
        let n = buf.len().min(self.1);
        self.0.extend_from_slice(&buf[..n]);
        Ok(n)
    }
    fn flush(&mut self) -> std::io::Result<()> {
        Ok(())
    }
}
impl embedded_io::ErrorType for PieceSink {
    type Error = embedded_io::ErrorKind;
}
impl embedded_io::Write for PieceSink {
    fn write(&mut self, buf: &[u8]) -> Result<usize, Self::Error> {
        let n = buf.len().min(self.1);
        self.0.extend_from_slice(&buf[..n]);
        Ok(n)
    }
    fn flush(&mut self) -> Result<(), Self::Error> {
        Ok(())
    }
}

macro_rules! with_digest {
    ($a:expr, |$d:ident| $body:expr) => {
        match $a {
            CrcAlgo::C8A => {
                let $d = CRC8_A.digest();
                $body
            }
            CrcAlgo::C8B => {
                let $d = CRC8_B.digest();
                $body
            }
            CrcAlgo::C16A => {
                let $d = CRC16_A.digest();
                $body
            }
            CrcAlgo::C16B => {
                let $d = CRC16_B.digest();
                $body
            }
            CrcAlgo::C32A => {
                let $d = CRC32_A.digest();
                $body
            }
            CrcAlgo::C32B => {
                let $d = CRC32_B.digest();
                $body
            }
            CrcAlgo::C32C => {
                let $d = CRC32_C.digest();
                $body
            }
            CrcAlgo::C64A => {
                let $d = CRC64_A.digest();
                $body
            }
            CrcAlgo::C64B => {
                let $d = CRC64_B.digest();
                $body
            }
            CrcAlgo::C128A => {
                let $d = CRC128_A.digest();
                $body
            }
        }
    };
}

pub fn run(ctx: &Ctx) {
    // thorough: shapes up to 4 nodes, up to 48 values each
    let corpus = if ctx.quick() { value_corpus(3, 256, 16) } else { value_corpus(4, 256, 48) };
    let algos: Vec<CrcAlgo> = ALL_CRC.to_vec();
    let calls = AtomicU64::new(0);
    let multi_blocks = AtomicU64::new(0);
    corpus.par_iter().enumerate().for_each(|(si, (s, vals))| {
        for (vi, v) in vals.iter().enumerate() {
            // "the plain encoding" = what the real plain encoder produces
            let plain = match real_plain(v) {
                Some(p) => p,
                None => continue,
            };
            let want_value = real_decode(s, &plain).map(|x| x.0);
            let d = AsData(v);
            let order = (si as u64) << 32 | (vi as u64) << 12;
            let case = |stack: &str| json!({"shape": s, "value": v, "stack": stack});
            macro_rules! expect {
                ($stack:expr, $got:expr, $want:expr) => {{
                    calls.fetch_add(1, Ordering::Relaxed);
                    match $got {
                        Ok(Ok(o)) => {
                            let o: Vec<u8> = o;
                            if o != $want {
                                ctx.violation("stack-bytes", format!("{}: got {} want {}", $stack, hex(&o), hex(&$want)), order, case($stack));
                            }
                        }
                        Ok(Err(e)) => ctx.violation("stack-error", format!("{}: {:?}", $stack, e), order, case($stack)),
                        Err(p) => ctx.violation("stack-panic", format!("{}: panic {p}", $stack), order, case($stack)),
                    }
                }};
            }
            // S and Cobs<S>
            let mut cobs_want = cobs_encode(&plain);
            cobs_want.push(0);
            let big = plain.len() + plain.len() / 254 + 40;
            let mut buf = vec![0u8; big];
            expect!("Slice", trap(|| serialize_with_flavor(&d, Slice::new(&mut buf)).map(|o: &mut [u8]| o.to_vec())), plain);
            expect!("AllocVec", trap(|| serialize_with_flavor(&d, AllocVec::new())), plain);
            if big <= 700 {
                expect!("HVec", trap(|| serialize_with_flavor(&d, HVec::<700>::new()).map(|o| o.to_vec())), plain);
            }
            expect!("Cobs<Slice>", trap(|| Cobs::try_new(Slice::new(&mut buf)).and_then(|f| serialize_with_flavor(&d, f)).map(|o: &mut [u8]| o.to_vec())), cobs_want);
            expect!("Cobs<AllocVec>", trap(|| Cobs::try_new(AllocVec::new()).and_then(|f| serialize_with_flavor(&d, f))), cobs_want);
            if big <= 700 {
                expect!("Cobs<HVec>", trap(|| Cobs::try_new(HVec::<700>::new()).and_then(|f| serialize_with_flavor(&d, f)).map(|o| o.to_vec())), cobs_want);
            }
            // sink-backed storages: an Extend collection and byte writers that take 1, 3 or all bytes per call
            expect!("ExtendFlavor<Vec>", trap(|| serialize_with_flavor(&d, postcard::ser_flavors::ExtendFlavor::new(Vec::<u8>::new()))), plain);
            for k in [1usize, 3, usize::MAX] {
                expect!(&format!("io::WriteFlavor<sink taking {k}/call>"), trap(|| serialize_with_flavor(&d, postcard::ser_flavors::io::WriteFlavor::new(PieceSink(vec![], k))).map(|w: PieceSink| w.0)), plain);
                expect!(&format!("eio::WriteFlavor<sink taking {k}/call>"), trap(|| serialize_with_flavor(&d, postcard::ser_flavors::eio::WriteFlavor::new(PieceSink(vec![], k))).map(|w: PieceSink| w.0)), plain);
            }
            // the convenience entry points are the same stacks: identical bytes, whatever the storage
            for (name, got) in [
                ("to_allocvec_cobs", trap(|| postcard::to_allocvec_cobs(&d))),
                ("to_stdvec_cobs", trap(|| postcard::to_stdvec_cobs(&d))),
                ("to_slice_cobs", trap(|| postcard::to_slice_cobs(&d, &mut buf).map(|o| o.to_vec()))),
            ] {
                expect!(name, got, cobs_want);
            }
            if big <= 700 {
                expect!("to_vec_cobs", trap(|| postcard::to_vec_cobs::<_, 700>(&d).map(|o| o.to_vec())), cobs_want);
            }
            // recording user flavours alone
            calls.fetch_add(2, Ordering::Relaxed);
            match trap(|| serialize_with_flavor(&d, RecPush::default())) {
                Ok(Ok((bytes, pushes))) => {
                    if bytes != plain || pushes as usize != plain.len() {
                        ctx.violation("user-flavour-push", format!("push-only flavour received {} in {} pushes, plain encoding {}", hex(&bytes), pushes, hex(&plain)), order, case("RecPush"));
                    }
                }
                other => ctx.violation("user-flavour-push", format!("{:?}", other.map(|r| r.map(|x| x.1))), order, case("RecPush")),
            }
            match trap(|| serialize_with_flavor(&d, RecExtend::default())) {
                Ok(Ok((bytes, blocks))) => {
                    if bytes != plain || blocks.iter().sum::<usize>() != plain.len() {
                        ctx.violation("user-flavour-extend", format!("extend flavour received {} as blocks {:?}, plain encoding {}", hex(&bytes), blocks, hex(&plain)), order, case("RecExtend"));
                    }
                    if blocks.iter().any(|b| *b > 1) {
                        multi_blocks.fetch_add(1, Ordering::Relaxed);
                    }
                }
                other => ctx.violation("user-flavour-extend", format!("{:?}", other.map(|r| r.map(|x| x.1))), order, case("RecExtend")),
            }
            for a in &algos {
                let mut crc_want = plain.clone();
                crc_want.extend(a.ref_checksum_le(&plain));
                let mut both_want = cobs_encode(&crc_want);
                both_want.push(0);
                let an = a.params().name;
                with_digest!(*a, |dg| expect!(&format!("Crc<{an}, Slice>"), trap(|| serialize_with_flavor(&d, CrcModifier::new(Slice::new(&mut buf), dg)).map(|o: &mut [u8]| o.to_vec())), crc_want));
                with_digest!(*a, |dg| expect!(&format!("Crc<{an}, AllocVec>"), trap(|| serialize_with_flavor(&d, CrcModifier::new(AllocVec::new(), dg))), crc_want));
                if big <= 700 {
                    with_digest!(*a, |dg| expect!(&format!("Crc<{an}, HVec>"), trap(|| serialize_with_flavor(&d, CrcModifier::new(HVec::<700>::new(), dg)).map(|o| o.to_vec())), crc_want));
                }
                with_digest!(*a, |dg| expect!(&format!("Crc<{an}, ExtendFlavor<Vec>>"), trap(|| serialize_with_flavor(&d, CrcModifier::new(postcard::ser_flavors::ExtendFlavor::new(Vec::<u8>::new()), dg))), crc_want));
                with_digest!(*a, |dg| expect!(&format!("Crc<{an}, io::WriteFlavor>"), trap(|| serialize_with_flavor(&d, CrcModifier::new(postcard::ser_flavors::io::WriteFlavor::new(PieceSink(vec![], 3)), dg)).map(|w: PieceSink| w.0)), crc_want));
                with_digest!(*a, |dg| expect!(&format!("Crc<{an}, eio::WriteFlavor>"), trap(|| serialize_with_flavor(&d, CrcModifier::new(postcard::ser_flavors::eio::WriteFlavor::new(PieceSink(vec![], 3)), dg)).map(|w: PieceSink| w.0)), crc_want));
                // checksum-then-COBS: CRC modifier outermost so data and checksum flow into the COBS encoder
                with_digest!(*a, |dg| expect!(
                    &format!("Crc<{an}, Cobs<Slice>>"),
                    trap(|| Cobs::try_new(Slice::new(&mut buf)).and_then(|f| serialize_with_flavor(&d, CrcModifier::new(f, dg))).map(|o: &mut [u8]| o.to_vec())),
                    both_want
                ));
                with_digest!(*a, |dg| expect!(
                    &format!("Crc<{an}, Cobs<AllocVec>>"),
                    trap(|| Cobs::try_new(AllocVec::new()).and_then(|f| serialize_with_flavor(&d, CrcModifier::new(f, dg)))),
                    both_want
                ));
                if big <= 700 {
                    with_digest!(*a, |dg| expect!(
                        &format!("Crc<{an}, Cobs<HVec>>"),
                        trap(|| Cobs::try_new(HVec::<700>::new()).and_then(|f| serialize_with_flavor(&d, CrcModifier::new(f, dg))).map(|o| o.to_vec())),
                        both_want
                    ));
                }
                // user flavours beneath the CRC modifier
                calls.fetch_add(2, Ordering::Relaxed);
                match with_digest!(*a, |dg| trap(|| serialize_with_flavor(&d, CrcModifier::new(RecPush::default(), dg)))) {
                    Ok(Ok((bytes, _))) if bytes == crc_want => {}
                    other => ctx.violation("user-flavour-under-crc", format!("{:?} want {}", other.map(|r| r.map(|x| hex(&x.0))), hex(&crc_want)), order, case("Crc<RecPush>")),
                }
                match with_digest!(*a, |dg| trap(|| serialize_with_flavor(&d, CrcModifier::new(RecExtend::default(), dg)))) {
                    Ok(Ok((bytes, _))) if bytes == crc_want => {}
                    other => ctx.violation("user-flavour-under-crc", format!("{:?} want {}", other.map(|r| r.map(|x| hex(&x.0))), hex(&crc_want)), order, case("Crc<RecExtend>")),
                }
                // undo in reverse: COBS decode (reference), then the real CRC-checked decoder
                calls.fetch_add(1, Ordering::Relaxed);
                let inner = cobs_decode_frame(&both_want[..both_want.len() - 1]).unwrap();
                let r = trap(|| with_shape(s, || crc_from::<Dyn>(*a, &inner)));
                match (r, &want_value) {
                    (Ok(Ok(Dyn(got))), Ok(w)) if &got == w => {}
                    (Ok(Err(e)), Err(w)) if &e == w => {}
                    (other, w) => ctx.violation("stack-undo", format!("undoing COBS then CRC gave {:?}, plain decoding of the plain encoding gives {:?}", other, w), order, case("undo")),
                }
                // and the real COBS decoder on the real stack output yields the value (checksum ignored by from_bytes)
                let mut fr = both_want.clone();
                match (trap(|| with_shape(s, || postcard::from_bytes_cobs::<Dyn>(&mut fr))), &want_value) {
                    (Ok(Ok(Dyn(got))), Ok(w)) if &got == w => {}
                    (Ok(Err(e)), Err(w)) if &e == w => {}
                    (other, w) => ctx.violation("stack-undo", format!("from_bytes_cobs on the stacked frame gave {:?}, expected {:?}", other, w), order, case("undo-cobs")),
                }
            }
        }
    });
    // zero-sized VALUES whose plain encoding is not empty, through serialize_with_flavor directly
    {
        use crate::corpus::OneUnit;
        let empty: &str = "";
        let cobs_00 = {
            let mut f = cobs_encode(&[0x00]);
            f.push(0);
            f
        };
        let mut buf = [0u8; 16];
        let checks: Vec<(&str, Result<postcard::Result<Vec<u8>>, String>, Vec<u8>)> = vec![
            ("AllocVec <- OneUnit", trap(|| serialize_with_flavor(&OneUnit::Only, AllocVec::new())), vec![0x00]),
            ("RecPush <- OneUnit", trap(|| serialize_with_flavor(&OneUnit::Only, RecPush::default()).map(|x| x.0)), vec![0x00]),
            ("Cobs<AllocVec> <- OneUnit", trap(|| Cobs::try_new(AllocVec::new()).and_then(|f| serialize_with_flavor(&OneUnit::Only, f))), cobs_00.clone()),
            ("Cobs<Slice> <- (OneUnit, OneUnit)", trap(|| Cobs::try_new(Slice::new(&mut buf)).and_then(|f| serialize_with_flavor(&(OneUnit::Only, OneUnit::Only), f)).map(|o: &mut [u8]| o.to_vec())), {
                let mut f = cobs_encode(&[0x00, 0x00]);
                f.push(0);
                f
            }),
            ("AllocVec <- str \"\"", trap(|| serialize_with_flavor::<str, _, _>(empty, AllocVec::new())), vec![0x00]),
            ("RecExtend <- str \"\"", trap(|| serialize_with_flavor::<str, _, _>(empty, RecExtend::default()).map(|x| x.0)), vec![0x00]),
            ("Cobs<AllocVec> <- [u8] empty", trap(|| Cobs::try_new(AllocVec::new()).and_then(|f| serialize_with_flavor::<[u8], _, _>(&[], f))), cobs_00.clone()),
        ];
        for (name, got, want) in checks {
            calls.fetch_add(1, Ordering::Relaxed);
            match got {
                Ok(Ok(b)) if b == want => {}
                other => ctx.violation("stack-zero-sized-value", format!("{name}: got {:?}, want {}", other.map(|r| r.map(|b| hex(&b))), hex(&want)), 0, json!({"stack": name})),
            }
        }
    }
    let n = calls.load(Ordering::Relaxed);
    ctx.add_evals(n);
    ctx.add_nontrivial(n);
    ctx.class("stack-serialisations", n);
    ctx.class("values-with-multi-byte-blocks-seen-by-extend-flavour", multi_blocks.load(Ordering::Relaxed));
    ctx.require_class("values-with-multi-byte-blocks-seen-by-extend-flavour");
    let nvals: u64 = corpus.iter().map(|(_, v)| v.len() as u64).sum();
    let mut ev = ctx.ev.lock().unwrap();
    ev.bound("values", json!(nvals));
    ev.bound("algorithms", json!(algos.iter().map(|a| a.params().name).collect::<Vec<_>>()));
    ev.bound("stacks", json!(["S", "Cobs<S>", "Crc_w<S>", "Crc_w<Cobs<S>>", "RecPush", "RecExtend", "Crc_w<RecPush>", "Crc_w<RecExtend>"]));
    ev.bound("storages", json!(["Slice", "HVec<700>", "AllocVec", "ExtendFlavor<Vec<u8>>", "io::WriteFlavor / eio::WriteFlavor over sinks accepting 1, 3 or all bytes per call (not under Cobs, which needs an indexable storage)"]));
    ev.rule = "every value of the corpus x every stack x every innermost storage through serialize_with_flavor; output must equal the composition of the independent COBS / CRC reference transformers applied to the spec encoding; recording user flavours must receive exactly the plain encoding in order; undoing the layers in reverse recovers the value".into();
    ev.sample(json!({"value": "Bytes(254 x 0x11)", "stack": "Crc<CRC_32_ISCSI, Cobs<Slice>>", "expect": "cobs(plain ++ crc32_le) ++ 00"}));
    ev.assumptions = vec!["finite value corpus (shapes <= 3 nodes + boundary byte arrays)".into()];
}
