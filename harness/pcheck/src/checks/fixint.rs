//! C13 fixed-width integer adapters.

use crate::rt::{hex, trap, Ctx};
use rayon::prelude::*;
use serde::{Deserialize, Serialize};
use serde_json::json;
use std::sync::atomic::{AtomicU64, Ordering};

macro_rules! fix_structs {
    ($($le:ident $be:ident $both:ident $t:ty;)*) => {$(
        #[derive(Serialize, Deserialize, Debug, PartialEq, Clone, Copy)]
        pub struct $le { pub pre: u8, #[serde(with = "postcard::fixint::le")] pub x: $t, pub post: u8 }
        #[derive(Serialize, Deserialize, Debug, PartialEq, Clone, Copy)]
        pub struct $be { pub pre: u8, #[serde(with = "postcard::fixint::be")] pub x: $t, pub post: u8 }
        /// both orders in one message, separated by a raw byte
        #[derive(Serialize, Deserialize, Debug, PartialEq, Clone, Copy)]
        pub struct $both { #[serde(with = "postcard::fixint::be")] pub b: $t, pub v: u8, #[serde(with = "postcard::fixint::le")] pub l: $t }
    )*};
}
fix_structs! {
    LeU16 BeU16 BothU16 u16;
    LeU32 BeU32 BothU32 u32;
    LeU64 BeU64 BothU64 u64;
    LeU128 BeU128 BothU128 u128;
    LeI16 BeI16 BothI16 i16;
    LeI32 BeI32 BothI32 i32;
    LeI64 BeI64 BothI64 i64;
    LeI128 BeI128 BothI128 i128;
}

fn patterns(bytes: usize) -> Vec<u128> {
    let bits = bytes * 8;
    let mask: u128 = if bits == 128 { u128::MAX } else { (1u128 << bits) - 1 };
    let mut v: Vec<u128> = vec![0, 1, mask, mask >> 1, (mask >> 1) + 1, mask - 1];
    // every single-byte-non-zero pattern
    for pos in 0..bytes {
        for b in 1..=255u128 {
            v.push(b << (8 * pos));
        }
    }
    // every adjacent two-byte pattern from {01,7F,80,FF}^2
    for pos in 0..bytes.saturating_sub(1) {
        for a in [0x01u128, 0x7F, 0x80, 0xFF] {
            for b in [0x01u128, 0x7F, 0x80, 0xFF] {
                v.push((a << (8 * pos)) | (b << (8 * (pos + 1))));
            }
        }
    }
    // distinct byte in every position (detects any permutation of bytes)
    let mut distinct = 0u128;
    for pos in 0..bytes {
        distinct |= ((pos as u128 + 1) * 0x11 & 0xFF) << (8 * pos);
    }
    v.push(distinct);
    v.sort();
    v.dedup();
    v
}

pub fn run(ctx: &Ctx) {
    let evals = AtomicU64::new(0);
    // every value is processed under the panic trap (a panic of the adapter is a finding, and the
    // non-termination watchdog sees the thread as inside the library)
    macro_rules! one_value {
        ($le:ident, $be:ident, $both:ident, $t:ty, $x:expr, $order:expr) => {{
            let xv: $t = $x;
            if let Err(p) = crate::rt::trap(|| one_value_inner!($le, $be, $both, $t, xv, $order)) {
                ctx.violation(concat!("fixint-panic-", stringify!($t)), format!("panic: {p}"), $order, json!({"type": stringify!($t), "value": xv.to_string()}));
            }
        }};
    }
    macro_rules! one_value_inner {
        ($le:ident, $be:ident, $both:ident, $t:ty, $x:expr, $order:expr) => {{
            let x: $t = $x;
            let n = std::mem::size_of::<$t>();
            let mut buf = [0u8; 64];
            evals.fetch_add(3, Ordering::Relaxed);
            // little endian
            let v = $le { pre: 0xA1, x, post: 0xB2 };
            match postcard::to_slice(&v, &mut buf) {
                Ok(out) => {
                    let mut want = vec![0xA1];
                    want.extend_from_slice(&x.to_le_bytes());
                    want.push(0xB2);
                    if out != &want[..] {
                        ctx.violation(concat!("fixint-le-", stringify!($t)), format!("bytes {} want {}", hex(out), hex(&want)), $order, json!({"type": stringify!($t), "order": "le", "value": x.to_string()}));
                    } else if out.len() != n + 2 {
                        ctx.violation(concat!("fixint-le-", stringify!($t)), "wrong length".into(), $order, json!({"value": x.to_string()}));
                    }
                    // every decode entry point, the readers with an EMPTY scratch buffer (a fixint needs none)
                    let mut none: [u8; 0] = [];
                    match postcard::from_io::<$le, _>((&out[..], &mut none[..])) {
                        Ok((back, _)) if back == v => {}
                        other => ctx.violation(concat!("fixint-le-", stringify!($t)), format!("from_io with empty scratch: {:?}", other.map(|x| x.0)), $order, json!({"type": stringify!($t), "order": "le", "value": x.to_string()})),
                    }
                    let mut none: [u8; 0] = [];
                    match postcard::from_eio::<$le, _>((crate::checks::c01::EioSlice(&out[..]), &mut none[..])) {
                        Ok((back, _)) if back == v => {}
                        other => ctx.violation(concat!("fixint-le-", stringify!($t)), format!("from_eio with empty scratch: {:?}", other.map(|x| x.0)), $order, json!({"type": stringify!($t), "order": "le", "value": x.to_string()})),
                    }
                    match postcard::from_bytes::<$le>(out) {
                        Ok(back) if back == v => {}
                        other => ctx.violation(concat!("fixint-le-", stringify!($t)), format!("decoded {:?}", other), $order, json!({"type": stringify!($t), "order": "le", "value": x.to_string()})),
                    }
                }
                Err(e) => ctx.violation(concat!("fixint-le-", stringify!($t)), format!("{e:?}"), $order, json!({"value": x.to_string()})),
            }
            let v = $be { pre: 0xA1, x, post: 0xB2 };
            match postcard::to_slice(&v, &mut buf) {
                Ok(out) => {
                    let mut want = vec![0xA1];
                    want.extend_from_slice(&x.to_be_bytes());
                    want.push(0xB2);
                    if out != &want[..] {
                        ctx.violation(concat!("fixint-be-", stringify!($t)), format!("bytes {} want {}", hex(out), hex(&want)), $order, json!({"type": stringify!($t), "order": "be", "value": x.to_string()}));
                    }
                    let mut none: [u8; 0] = [];
                    match postcard::from_io::<$be, _>((&out[..], &mut none[..])) {
                        Ok((back, _)) if back == v => {}
                        other => ctx.violation(concat!("fixint-be-", stringify!($t)), format!("from_io with empty scratch: {:?}", other.map(|x| x.0)), $order, json!({"type": stringify!($t), "order": "be", "value": x.to_string()})),
                    }
                    match postcard::from_bytes::<$be>(out) {
                        Ok(back) if back == v => {}
                        other => ctx.violation(concat!("fixint-be-", stringify!($t)), format!("decoded {:?}", other), $order, json!({"type": stringify!($t), "order": "be", "value": x.to_string()})),
                    }
                }
                Err(e) => ctx.violation(concat!("fixint-be-", stringify!($t)), format!("{e:?}"), $order, json!({"value": x.to_string()})),
            }
            let v = $both { b: x, v: 0x5A, l: x };
            match postcard::to_slice(&v, &mut buf) {
                Ok(out) => {
                    let ok = out.len() == 2 * n + 1 && out[..n] == x.to_be_bytes() && out[n] == 0x5A && out[out.len() - n..] == x.to_le_bytes();
                    if !ok {
                        ctx.violation(concat!("fixint-both-", stringify!($t)), format!("bytes {}", hex(out)), $order, json!({"type": stringify!($t), "value": x.to_string()}));
                    }
                    // only the two fixint fields are this property's concern (the varint field in the middle is C01's)
                    match postcard::from_bytes::<$both>(out) {
                        Ok(back) if back.b == v.b && back.l == v.l => {}
                        other => ctx.violation(concat!("fixint-both-", stringify!($t)), format!("decoded {:?}", other), $order, json!({"type": stringify!($t), "value": x.to_string()})),
                    }
                }
                Err(e) => ctx.violation(concat!("fixint-both-", stringify!($t)), format!("{e:?}"), $order, json!({"value": x.to_string()})),
            }
        }};
    }
    // whole 16-bit domains
    (0..=u16::MAX).into_par_iter().for_each(|x| {
        let _ = trap(|| {
            one_value!(LeU16, BeU16, BothU16, u16, x, x as u64);
            one_value!(LeI16, BeI16, BothI16, i16, x as i16, x as u64);
        });
    });
    ctx.class("whole-domain:u16+i16", 2 * 65536);
    macro_rules! structured {
        ($le:ident, $be:ident, $both:ident, $ut:ty, $sle:ident, $sbe:ident, $sboth:ident, $st:ty) => {{
            let pats = patterns(std::mem::size_of::<$ut>());
            ctx.class(concat!("patterns:", stringify!($ut)), pats.len() as u64);
            pats.par_iter().enumerate().for_each(|(i, p)| {
                let _ = trap(|| {
                    one_value!($le, $be, $both, $ut, *p as $ut, i as u64);
                    one_value!($sle, $sbe, $sboth, $st, *p as $ut as $st, i as u64);
                });
            });
        }};
    }
    structured!(LeU32, BeU32, BothU32, u32, LeI32, BeI32, BothI32, i32);
    structured!(LeU64, BeU64, BothU64, u64, LeI64, BeI64, BothI64, i64);
    structured!(LeU128, BeU128, BothU128, u128, LeI128, BeI128, BothI128, i128);
    if !ctx.quick() {
        (0..4096u32).into_par_iter().for_each(|hi| {
            for lo in 0..(1u32 << 20) {
                let x = (hi << 20) | lo;
                one_value!(LeU32, BeU32, BothU32, u32, x, x as u64);
                one_value!(LeI32, BeI32, BothI32, i32, x as i32, x as u64);
            }
        });
        ctx.class("whole-domain:u32+i32", 2u64 << 32);
    }
    let n = evals.load(Ordering::Relaxed);
    ctx.add_evals(n);
    ctx.add_nontrivial(n);
    let mut ev = ctx.ev.lock().unwrap();
    ev.rule = "8 integer types x {le,be} (and both orders around a varint field in one struct): entire 16-bit domains; for wider types every single-byte-non-zero pattern, every adjacent two-byte pattern from {01,7F,80,FF}^2, extremes and an all-bytes-distinct pattern; whole 32-bit domains in thorough; encoding must be sentinel ++ to_le_bytes/to_be_bytes ++ sentinel and decode back".into();
    ev.sample(json!({"type": "u32", "order": "be", "value": "0x00007f00", "bytes": "a1 00 00 7f 00 b2"}));
    ev.assumptions = vec!["64/128-bit: structured byte patterns (each byte position x each byte value), not whole domains".into()];
}
