//! C15 borrowed/owned schemas, C16 schema keys, C19 inspection helpers — over all schema trees <= k nodes.

use crate::rt::{hex, trap, Ctx};
use crate::schema_glue::*;
use postcard_schema::key::Key;
use postcard_schema::schema::owned::OwnedDataModelType;
use rayon::prelude::*;
use serde_json::json;
use std::collections::{BTreeSet, HashSet};
use std::sync::atomic::{AtomicU64, Ordering};
use vmodel::schema::*;

pub fn trees_for(ctx: &Ctx, k_quick: usize, k_thorough: usize) -> (Vec<St>, usize) {
    let k = if ctx.quick() { k_quick } else { k_thorough };
    let en = SchemaEnum::new(k, 3);
    let mut trees = en.upto(k);
    // targeted families beyond the node bound: all pairs of <= 2-node children under every binary
    // constructor, and wide fan-outs (16, 17, 20, 130 children)
    trees.extend(pair_family());
    trees.extend(wide_family());
    // nesting far beyond the node bound (chains of 8..70 wrappers) and names of 8..300 bytes
    trees.extend(deep_family());
    trees.extend(long_name_family());
    (trees, k)
}

fn kinds_seen(trees: &[St]) -> (BTreeSet<&'static str>, BTreeSet<&'static str>) {
    let mut ks = BTreeSet::new();
    let mut ds = BTreeSet::new();
    for t in trees {
        let mut v = vec![];
        t.subtrees(&mut v);
        for s in v {
            ks.insert(s.kind_name());
            match s {
                St::Struct(_, d) => {
                    ds.insert(d.data_kind());
                }
                St::Enum(_, vs) => {
                    for (_, d) in vs {
                        ds.insert(d.data_kind());
                    }
                }
                _ => {}
            }
        }
    }
    (ks, ds)
}

fn guard_kinds(ctx: &Ctx, trees: &[St]) {
    let (ks, ds) = kinds_seen(trees);
    if ks.len() != 26 || ds.len() != 4 {
        ctx.machinery(format!("vacuity guard: {} of 26 node kinds and {} of 4 data kinds exercised", ks.len(), ds.len()));
    }
    let mut ev = ctx.ev.lock().unwrap();
    ev.bound("node_kinds_exercised", json!(ks.len()));
    ev.bound("data_kinds_exercised", json!(ds.len()));
}

// ---------------------------------------------------------------------------------------------
// C15
// ---------------------------------------------------------------------------------------------

fn c15_one(ctx: &Ctx, t: &St, order: u64) {
    let r = trap(|| -> Result<(), (String, String)> {
        let mut arena = Arena::default();
        let borrowed = arena.build(t);
        let expected = to_owned(t);
        let converted = OwnedDataModelType::from(borrowed);
        if converted != expected {
            return Err(("conversion".into(), format!("From<&DataModelType> gave {:?}, expected {:?}", converted, expected)));
        }
        let b1 = postcard::to_allocvec(borrowed).map_err(|e| ("encode".to_string(), format!("borrowed: {e:?}")))?;
        let b2 = postcard::to_allocvec(&expected).map_err(|e| ("encode".to_string(), format!("owned: {e:?}")))?;
        if b1 != b2 {
            return Err(("bytes-differ".into(), format!("borrowed {} owned {}", hex(&b1), hex(&b2))));
        }
        let (back, rem): (OwnedDataModelType, &[u8]) = postcard::take_from_bytes(&b1).map_err(|e| ("decode".to_string(), format!("{e:?} on {}", hex(&b1))))?;
        if back != expected || !rem.is_empty() {
            return Err(("decode".into(), format!("decoded {:?} (remaining {}), expected {:?}", back, rem.len(), expected)));
        }
        Ok(())
    });
    match r {
        Err(p) => ctx.violation("schema-panic", format!("panic: {p}"), order, json!({"schema": t})),
        Ok(Err((c, w))) => ctx.violation(&format!("schema-{c}"), w, order, json!({"schema": t})),
        Ok(Ok(())) => {}
    }
}

pub fn run_c15(ctx: &Ctx) {
    let (trees, k) = trees_for(ctx, 4, 5);
    let n = AtomicU64::new(0);
    trees.par_iter().enumerate().for_each(|(i, t)| {
        c15_one(ctx, t, (i as u64) << 8);
        let mut c = 1;
        // name cycling: every named position x every name of the set, one at a time
        if t.nodes() <= 4 {
            for (j, (_, m)) in name_variations(t, &NAME_SET).iter().enumerate() {
                c15_one(ctx, m, (i as u64) << 8 | (j as u64 + 1).min(255));
                c += 1;
            }
        }
        n.fetch_add(c, Ordering::Relaxed);
    });
    // schemas of the typed corpus
    let mut m = 0u64;
    for (name, s) in crate::checks::schema_typed::corpus_schemas() {
        m += 1;
        let t = from_static(s);
        c15_one(ctx, &t, (1u64 << 50) | m);
        // and on the genuinely static tree
        let r = trap(|| {
            let o = OwnedDataModelType::from(s);
            let b1 = postcard::to_allocvec(s).unwrap();
            let b2 = postcard::to_allocvec(&o).unwrap();
            let back: OwnedDataModelType = postcard::from_bytes(&b1).unwrap();
            b1 == b2 && back == o && o == to_owned(&t)
        });
        if r != Ok(true) {
            ctx.violation("schema-corpus", format!("static schema of {name} fails the borrowed/owned equivalence: {:?}", r), m, json!({"type": name}));
        }
    }
    let total = n.load(Ordering::Relaxed) + m;
    ctx.add_evals(total);
    ctx.add_nontrivial(total);
    ctx.class("trees", trees.len() as u64);
    ctx.class("corpus-schemas", m);
    guard_kinds(ctx, &trees);
    let mut ev = ctx.ev.lock().unwrap();
    ev.bound("tree_nodes_max", json!(k));
    ev.bound("trees", json!(trees.len()));
    ev.bound("name_set", json!(NAME_SET));
    ev.rule = "every schema tree with <= k nodes over the 26 node kinds and 4 data kinds (lists 0..3, enums 0..2 variants), plus every single-name replacement from {\"\",a,é,ab} on trees <= 4 nodes, plus the static schemas of the typed corpus: From<&DataModelType> equals the owned tree built directly from the AST; borrowed and owned encodings identical; bytes decode to the owned tree consuming everything".into();
    ev.sample(json!({"schema": trees[trees.len() / 2]}));
    ev.sample(json!({"schema": trees[trees.len() - 1]}));
    ev.assumptions = vec!["trees bounded by node count; names from a 4-element set (empty, ASCII, multi-byte, two-char)".into()];
}

// ---------------------------------------------------------------------------------------------
// C16
// ---------------------------------------------------------------------------------------------

fn keys_for(path: &str, t: &St) -> Result<([u8; 8], [u8; 8], [u8; 8]), String> {
    let mut arena = Arena::default();
    let borrowed = arena.build(t);
    let owned = to_owned(t);
    let path_static: &str = path;
    let k_const = trap(|| postcard_schema::key::hash::fnv1a64::verif_hash_path_schema(path_static, borrowed)).map_err(|p| format!("const hasher panic: {p}"))?;
    let k_owned = trap(|| Key::for_owned_schema_path(path, &owned).to_bytes()).map_err(|p| format!("owned hasher panic: {p}"))?;
    Ok((k_const, k_owned, reference_key(path, t)))
}

pub fn run_c16(ctx: &Ctx) {
    let (trees, k) = trees_for(ctx, 4, 5);
    let long = long_name(300);
    let paths: Vec<&str> = vec!["", "a", "é", "test_path", &long];
    let n = AtomicU64::new(0);
    let sens = AtomicU64::new(0);
    let insens = AtomicU64::new(0);
    let equal_streams = AtomicU64::new(0);
    trees.par_iter().enumerate().for_each(|(i, t)| {
        let mut c = 0u64;
        let mut base = vec![];
        for (pi, p) in paths.iter().enumerate() {
            c += 1;
            match keys_for(p, t) {
                Err(e) => ctx.violation("key-panic", e, i as u64, json!({"schema": t, "path": p})),
                Ok((kc, ko, kr)) => {
                    if kc != ko {
                        ctx.violation("key-hashers-disagree", format!("compile-time hasher {} != run-time hasher {}", hex(&kc), hex(&ko)), (i as u64) << 4 | pi as u64, json!({"schema": t, "path": p}));
                    } else if kc != kr {
                        ctx.violation("key-not-documented-stream", format!("key {} != FNV-1a64 of the documented stream {}", hex(&kc), hex(&kr)), (i as u64) << 4 | pi as u64, json!({"schema": t, "path": p}));
                    }
                    base.push((kc, ko));
                }
            }
        }
        if base.len() != paths.len() {
            n.fetch_add(c, Ordering::Relaxed);
            return;
        }
        // path sensitivity (and Key::const_cmp must agree with byte equality on every pair)
        for a in 0..paths.len() {
            for b in a..paths.len() {
                let ka = Key::for_owned_schema_path(paths[a], &to_owned(t));
                let kb = Key::for_owned_schema_path(paths[b], &to_owned(t));
                let consistent = trap(|| ka.const_cmp(&kb) == (ka.to_bytes() == kb.to_bytes()) && (ka == kb) == (ka.to_bytes() == kb.to_bytes()));
                if consistent != Ok(true) {
                    ctx.violation("key-comparison", format!("const_cmp / == disagree with byte equality for keys {} and {}", hex(&ka.to_bytes()), hex(&kb.to_bytes())), i as u64, json!({"schema": t, "paths": [paths[a], paths[b]]}));
                }
            }
            for b in a + 1..paths.len() {
                if base[a].0 == base[b].0 {
                    ctx.violation("key-insensitive-path", format!("paths {:?} and {:?} give the same key", paths[a], paths[b]), i as u64, json!({"schema": t}));
                }
            }
        }
        // single-node mutations (on trees <= 4 nodes in every tier)
        if t.nodes() <= 4 {
            let p = "test_path";
            let (k0, _) = base[3];
            let mut stream0 = vec![];
            tag_stream(t, &mut stream0);
            let muts: Vec<(u8, St)> = name_variations(t, &NAME_SET).into_iter().chain(kind_mutations(t).into_iter().map(|m| (9u8, m))).collect();
            for (mi, (mk, m)) in muts.iter().enumerate() {
                c += 1;
                let mut stream1 = vec![];
                tag_stream(m, &mut stream1);
                match keys_for(p, m) {
                    Err(e) => ctx.violation("key-panic", e, i as u64, json!({"schema": m, "path": p})),
                    Ok((kc, ko, kr)) => {
                        let order = (1u64 << 40) | (i as u64) << 12 | mi as u64;
                        if kc != ko || kc != kr {
                            ctx.violation("key-hashers-disagree", format!("on mutated tree: const {} owned {} reference {}", hex(&kc), hex(&ko), hex(&kr)), order, json!({"schema": m, "path": p}));
                        }
                        if *mk == 0 {
                            // struct / enum type name: must not influence the key
                            insens.fetch_add(1, Ordering::Relaxed);
                            if kc != k0 || ko != k0 {
                                ctx.violation("key-depends-on-type-name", "changing only a struct/enum type name changed the key".into(), order, json!({"schema": t, "mutated": m, "path": p}));
                            }
                        } else if stream1 != stream0 {
                            sens.fetch_add(1, Ordering::Relaxed);
                            if kc == k0 || ko == k0 {
                                ctx.violation("key-insensitive", "a field/variant name, order or kind change did not change the key".into(), order, json!({"schema": t, "mutated": m, "path": p}));
                            }
                        } else {
                            equal_streams.fetch_add(1, Ordering::Relaxed);
                        }
                    }
                }
            }
        }
        n.fetch_add(c, Ordering::Relaxed);
    });
    // sensitivity at depth and inside long names: changing the innermost leaf of a chain, or one byte
    // at any position of a long name or path, must change both keys
    let mut m = 0u64;
    for w in 0..8 {
        for d in DEEP_DEPTHS {
            m += 1;
            let (a, b) = (deep_chain(w, d, St::U8), deep_chain(w, d, St::Bool));
            match (keys_for("p", &a), keys_for("p", &b)) {
                (Ok((ac, ao, _)), Ok((bc, bo, _))) => {
                    if ac == bc || ao == bo {
                        ctx.violation("key-insensitive-at-depth", format!("changing the leaf under {d} wrappers (constructor {w}) left a key unchanged (compile-time {} / {}, run-time {} / {})", hex(&ac), hex(&bc), hex(&ao), hex(&bo)), (2u64 << 40) | (w as u64) << 8 | d as u64, json!({"schema": a, "mutated": b, "path": "p"}));
                    }
                }
                (Err(e), _) | (_, Err(e)) => ctx.violation("key-panic", e, (2u64 << 40) | d as u64, json!({"schema": a, "path": "p"})),
            }
        }
    }
    for n in [8usize, 15, 16, 17, 40, 300] {
        let nm = long_name(n);
        let base_t = St::Struct("S".into(), Sd::Struct(vec![(nm.clone(), St::U8)]));
        let (bc, bo, _) = match keys_for(&nm, &base_t) {
            Ok(k) => k,
            Err(e) => {
                ctx.violation("key-panic", e, (3u64 << 40) | n as u64, json!({"schema": base_t, "path": nm}));
                continue;
            }
        };
        for pos in 0..n {
            m += 2;
            let mut bytes = nm.clone().into_bytes();
            bytes[pos] = if bytes[pos] == b'#' { b'$' } else { b'#' };
            let changed = String::from_utf8(bytes).unwrap();
            let t2 = St::Struct("S".into(), Sd::Struct(vec![(changed.clone(), St::U8)]));
            for (what, res) in [("field name", keys_for(&nm, &t2)), ("path", keys_for(&changed, &base_t))] {
                match res {
                    Ok((c, o, r)) => {
                        if c != o || c != r {
                            ctx.violation("key-hashers-disagree", format!("{what} of {n} bytes changed at byte {pos}: const {} owned {} reference {}", hex(&c), hex(&o), hex(&r)), (3u64 << 40) | (n as u64) << 12 | pos as u64, json!({"schema": t2, "path": nm}));
                        } else if c == bc || o == bo {
                            ctx.violation("key-insensitive", format!("changing byte {pos} of a {n}-byte {what} did not change the key"), (3u64 << 40) | (n as u64) << 12 | pos as u64, json!({"schema": base_t, "name": nm, "changed": changed}));
                        }
                    }
                    Err(e) => ctx.violation("key-panic", e, (3u64 << 40) | n as u64, json!({"schema": t2, "path": nm})),
                }
            }
        }
    }
    ctx.class("deep-chain / long-name sensitivity cases", m);
    // the crate's public incremental hasher (`Fnv1a64Hasher`, "a const compatible Fnv1a64 hasher") is the same
    // function: for every split of a few byte strings into two updates its digest is FNV-1a-64
    for data in [&b""[..], &b"a"[..], &b"test_path"[..], long.as_bytes(), &[0u8, 0xFF, 0x80, 0x01][..]] {
        for cut in 0..=data.len().min(12) {
            m += 1;
            let r = trap(|| {
                let mut h = postcard_schema::key::hash::Fnv1a64Hasher::new();
                h.update(&data[..cut]);
                h.update(&data[cut..]);
                h.digest_bytes()
            });
            let want = fnv1a64(data).to_le_bytes();
            if r != Ok(want) {
                ctx.violation("key-public-hasher", format!("Fnv1a64Hasher over {} bytes (updates of {} and {}) gives {:?}, FNV-1a-64 is {}", data.len(), cut, data.len() - cut, r.map(|b| hex(&b)), hex(&want)), (5u64 << 40) | cut as u64, json!({"data": hex(data), "cut": cut}));
            }
        }
    }
    // Key helpers on keys that differ in exactly one byte: comparison must see every byte position
    for base in [[0u8; 8], [0xFF; 8], [1, 2, 3, 4, 5, 6, 7, 8]] {
        for pos in 0..8 {
            for mask in [0x01u8, 0x80, 0xFF] {
                m += 1;
                let mut other = base;
                other[pos] ^= mask;
                let r = trap(|| {
                    let (a, b) = unsafe { (Key::from_bytes(base), Key::from_bytes(other)) };
                    (a.to_bytes() == base && b.to_bytes() == other, a.const_cmp(&b) || b.const_cmp(&a) || a == b, a.const_cmp(&a) && b.const_cmp(&b) && a == a)
                });
                match r {
                    Ok((true, false, true)) => {}
                    other_r => ctx.violation("key-comparison", format!("keys {} and {} (differing in byte {pos}): (bytes round-trip, compare equal, self-equal) = {:?}", hex(&base), hex(&other), other_r), (4u64 << 40) | pos as u64, json!({"a": hex(&base), "b": hex(&other)})),
                }
            }
        }
    }
    // typed corpus: genuinely const-evaluated keys
    for (name, s, ckeys) in crate::checks::schema_typed::corpus_const_keys() {
        let t = from_static(s);
        let owned = OwnedDataModelType::from(s);
        for (pi, path) in crate::checks::schema_typed::CONST_PATHS.iter().enumerate() {
            m += 1;
            let ckey = ckeys[pi];
            let ko = Key::for_owned_schema_path(path, &owned).to_bytes();
            let kh = postcard_schema::key::hash::fnv1a64::verif_hash_path_schema(path, s);
            let kr = reference_key(path, &t);
            if ckey != ko || ckey != kh || ckey != kr {
                ctx.violation("key-const-eval", format!("{name} path {:?}: const-evaluated Key::for_path {} hook {} owned {} reference {}", path, hex(&ckey), hex(&kh), hex(&ko), hex(&kr)), m, json!({"type": name, "path": path}));
            }
        }
    }
    let total = n.load(Ordering::Relaxed) + m;
    ctx.add_evals(total);
    ctx.add_nontrivial(total);
    ctx.class("trees", trees.len() as u64);
    ctx.class("mutations-that-must-change-the-key", sens.load(Ordering::Relaxed));
    ctx.class("type-name-mutations-that-must-not", insens.load(Ordering::Relaxed));
    ctx.class("mutations-with-identical-documented-stream(not asserted)", equal_streams.load(Ordering::Relaxed));
    ctx.class("const-evaluated-corpus-keys", m);
    ctx.require_class("mutations-that-must-change-the-key");
    ctx.require_class("type-name-mutations-that-must-not");
    guard_kinds(ctx, &trees);
    let mut ev = ctx.ev.lock().unwrap();
    ev.bound("tree_nodes_max", json!(k));
    ev.bound("trees", json!(trees.len()));
    ev.bound("paths", json!(["", "a", "é", "test_path", "300 bytes, neighbouring bytes distinct"]));
    ev.rule = "every schema tree <= k nodes x 5 paths: compile-time hasher (through the cfg hook) == run-time hasher == little-endian FNV-1a-64 of path ++ documented tag/name stream (independent implementation); every single-node mutation of every tree <= 4 nodes (each name replaced by each other name of the set, each primitive kind by each other, adjacent unequal children swapped, Option<->Seq, newtype<->1-tuple): key must change iff the reference streams differ (asserted only then), type-name changes must not change it; typed corpus keys evaluated in const context".into();
    ev.sample(json!({"schema": trees[trees.len() / 3], "path": "test_path"}));
    ev.assumptions = vec!["const fn hasher run at run time through the hook; tied to CTFE on the typed corpus".into(), "'keys differ' asserted only between schemas whose documented streams differ; a 64-bit collision would be a genuine counterexample".into()];
}

// ---------------------------------------------------------------------------------------------
// C19
// ---------------------------------------------------------------------------------------------

fn names_of(t: &St) -> Vec<String> {
    // for a top-level struct or enum: its name and each of its field and variant names
    let mut v = vec![];
    fn data(d: &Sd, v: &mut Vec<String>) {
        if let Sd::Struct(l) = d {
            for (n, _) in l {
                v.push(n.clone());
            }
        }
    }
    match t {
        St::Struct(n, d) => {
            v.push(n.clone());
            data(d, &mut v);
        }
        St::Enum(n, vs) => {
            v.push(n.clone());
            for (vn, d) in vs {
                v.push(vn.clone());
                data(d, &mut v);
            }
        }
        _ => {}
    }
    v
}

fn c19_one(ctx: &Ctx, t: &St, order: u64) {
    let owned = to_owned(t);
    let case = || json!({"schema": t});
    // class of a panic: precise enough that a different panic is a different class
    let kinds: Vec<&str> = ["Usize", "Isize", "Schema"].into_iter().filter(|k| t.contains_kind(k)).collect();
    match trap(|| owned.to_pseudocode()) {
        Err(p) => ctx.violation("pseudocode-panic", format!("to_pseudocode panicked: {p}"), order, case()),
        Ok(text) => {
            for n in names_of(t) {
                if !text.contains(&n) {
                    ctx.violation("pseudocode-missing-name", format!("rendering {:?} does not mention {:?}", text, n), order, case());
                }
            }
            // Display is a rendering entry point of its own: same requirements, no equality demanded
            match trap(|| owned.to_string()) {
                Err(p) => ctx.violation("display-panic", format!("Display panicked: {p}"), order, case()),
                Ok(d) => {
                    for n in names_of(t) {
                        if !d.contains(&n) {
                            ctx.violation("display-missing-name", format!("Display rendering {:?} does not mention {:?}", d, n), order, case());
                        }
                    }
                }
            }
        }
    }
    match trap(|| owned.all_used_types()) {
        Err(p) => {
            let class = if !kinds.is_empty() { format!("all-used-types-panic-on-{}", kinds.join("+")) } else { "all-used-types-panic".to_string() };
            ctx.violation(&class, format!("all_used_types panicked: {p}"), order, case())
        }
        Ok(set) => {
            let mut subs = vec![];
            t.subtrees(&mut subs);
            let want: HashSet<OwnedDataModelType> = subs.iter().map(|s| to_owned(s)).collect();
            if set != want {
                let missing: Vec<_> = want.difference(&set).collect();
                let extra: Vec<_> = set.difference(&want).collect();
                ctx.violation("all-used-types-set", format!("missing {:?} extra {:?}", missing, extra), order, case());
            }
        }
    }
}

pub fn run_c19(ctx: &Ctx) {
    let (trees, k) = trees_for(ctx, 4, 5);
    let n = AtomicU64::new(0);
    trees.par_iter().enumerate().for_each(|(i, t)| {
        c19_one(ctx, t, (i as u64) << 8);
        let mut c = 1;
        if t.nodes() <= 4 && matches!(t, St::Struct(..) | St::Enum(..)) {
            // name cycling with distinguishable names (so "mentions the name" is meaningful)
            for (j, (_, m)) in name_variations(t, &["Qq", "zz9", "é_e", "ab"]).iter().enumerate() {
                c19_one(ctx, m, (i as u64) << 8 | (j as u64 + 1).min(255));
                c += 1;
            }
        }
        n.fetch_add(c, Ordering::Relaxed);
    });
    let mut m = 0u64;
    for (_name, s) in crate::checks::schema_typed::corpus_schemas() {
        m += 1;
        c19_one(ctx, &from_static(s), (1u64 << 50) | m);
    }
    let total = n.load(Ordering::Relaxed) + m;
    ctx.add_evals(total);
    ctx.add_nontrivial(total);
    ctx.class("trees", trees.len() as u64);
    guard_kinds(ctx, &trees);
    let mut ev = ctx.ev.lock().unwrap();
    ev.bound("tree_nodes_max", json!(k));
    ev.bound("trees", json!(trees.len()));
    ev.rule = "every owned schema tree <= k nodes (every node kind in every position, incl. Usize/Isize/Schema) plus name cycling on top-level structs/enums plus the typed corpus: to_pseudocode / Display / all_used_types return without panic; the collected set equals the set of all sub-trees of the AST; the rendering of a top-level struct or enum contains its name and each field and variant name".into();
    ev.sample(json!({"schema": trees[trees.len() / 2]}));
    ev.assumptions = vec!["trees bounded by node count".into()];
}
