//! C03 decoder accepts exactly what the specification allows (and C04's shared comparison core).

use crate::checks::c01::shapes_for;
use crate::dynval::{with_shape, with_shape_borrows, Dyn};
use crate::rt::{count_allocs, hex, set_case, trap, with_arena, Ctx};
use rayon::prelude::*;
use serde_json::json;
use std::collections::BTreeMap;
use std::sync::atomic::{AtomicU64, Ordering};
use vmodel::glue::Borrows;
use vmodel::shape::*;
use vmodel::spec::*;

pub const A_DEC: [u8; 11] = [0x00, 0x01, 0x02, 0x04, 0x05, 0x7F, 0x80, 0x81, 0xC3, 0xA9, 0xFF];

pub fn map_err(e: &postcard::Error) -> ErrKind {
    use postcard::Error::*;
    match e {
        DeserializeUnexpectedEnd => ErrKind::UnexpectedEnd,
        DeserializeBadVarint => ErrKind::BadVarint,
        DeserializeBadBool => ErrKind::BadBool,
        DeserializeBadOption => ErrKind::BadOption,
        DeserializeBadUtf8 => ErrKind::BadUtf8,
        DeserializeBadChar => ErrKind::BadChar,
        _ => ErrKind::Other,
    }
}

fn kind_name(k: ErrKind) -> &'static str {
    match k {
        ErrKind::UnexpectedEnd => "reject:unexpected-end",
        ErrKind::BadVarint => "reject:bad-varint",
        ErrKind::BadBool => "reject:bad-bool",
        ErrKind::BadOption => "reject:bad-option",
        ErrKind::BadUtf8 => "reject:bad-utf8",
        ErrKind::BadChar => "reject:bad-char",
        ErrKind::Other => "reject:other",
    }
}

/// lenient variant of the spec decoder used ONLY to classify the known char defect:
/// accept the first scalar of a multi-scalar char payload.
fn lenient_char_decode(s: &Shape, input: &[u8]) -> Option<(Val, usize)> {
    // re-implemented on top of the spec decoder by rewriting: decode with a shape where char is Str,
    // then map strings at char positions to their first scalar. Simpler: a small recursive walk.
    fn walk(d: &mut Dec, s: &Shape) -> Result<Val, ErrKind> {
        match s {
            Shape::Char => {
                let n = d.varint(64)?;
                if n > 4 {
                    return Err(ErrKind::BadChar);
                }
                let v = d.val(&Shape::Tuple(vec![Shape::U8; n as usize]))?;
                let bytes: Vec<u8> = match v {
                    Val::Tuple(l) => l.iter().map(|x| if let Val::U8(b) = x { *b } else { 0 }).collect(),
                    _ => vec![],
                };
                let st = std::str::from_utf8(&bytes).map_err(|_| ErrKind::BadChar)?;
                st.chars().next().map(Val::Char).ok_or(ErrKind::BadChar)
            }
            Shape::Option(i) => match d.val(&Shape::U8)? {
                Val::U8(0) => Ok(Val::None),
                Val::U8(1) => Ok(Val::Some(Box::new(walk(d, i)?))),
                _ => Err(ErrKind::BadOption),
            },
            Shape::NewtypeStruct(i) => Ok(Val::NewtypeStruct(Box::new(walk(d, i)?))),
            Shape::Seq(e) => {
                let n = d.varint(64)?;
                if n > 4096 {
                    return Err(ErrKind::Other);
                }
                let mut out = vec![];
                for _ in 0..n {
                    out.push(walk(d, e)?);
                }
                Ok(Val::Seq(out))
            }
            Shape::Map(k, v) => {
                let n = d.varint(64)?;
                if n > 4096 {
                    return Err(ErrKind::Other);
                }
                let mut out = vec![];
                for _ in 0..n {
                    let a = walk(d, k)?;
                    let b = walk(d, v)?;
                    out.push((a, b));
                }
                Ok(Val::Map(out))
            }
            Shape::Tuple(l) => Ok(Val::Tuple(l.iter().map(|s| walk(d, s)).collect::<Result<_, _>>()?)),
            Shape::TupleStruct(l) => Ok(Val::TupleStruct(l.iter().map(|s| walk(d, s)).collect::<Result<_, _>>()?)),
            Shape::Struct(l) => Ok(Val::Struct(l.iter().map(|s| walk(d, s)).collect::<Result<_, _>>()?)),
            Shape::Enum(vs) => {
                let idx = d.varint(32)? as u32;
                let pos = vs.iter().position(|(i, _)| *i == idx).ok_or(ErrKind::Other)?;
                let data = match &vs[pos].1 {
                    VShape::Unit => VVal::Unit,
                    VShape::Newtype(s) => VVal::Newtype(Box::new(walk(d, s)?)),
                    VShape::Tuple(l) => VVal::Tuple(l.iter().map(|s| walk(d, s)).collect::<Result<_, _>>()?),
                    VShape::Struct(l) => VVal::Struct(l.iter().map(|s| walk(d, s)).collect::<Result<_, _>>()?),
                };
                Ok(Val::Variant { pos, idx, data })
            }
            other => d.val(other),
        }
    }
    let mut d = Dec::new(input);
    walk(&mut d, s).ok().map(|v| (v, d.pos))
}

#[derive(Default)]
pub struct LocalStats {
    pub classes: BTreeMap<&'static str, u64>,
    pub evals: u64,
    /// non-trivial by rule: the decoder got past the first byte (accepted, or rejected after >= 1 byte was consumed)
    pub nontrivial: u64,
    pub skipped_zero_width: u64,
    pub accepted: u64,
}

pub struct CmpOpts {
    /// also run the C04 monitors (both guard placements, borrowed ranges, allocation bound)
    pub c04: bool,
    /// pre-serialised JSON of the current shape (for the fault slot)
    pub shape_json: String,
    /// the allocation bound applies (no map, no sequence of zero-width elements)
    pub alloc_bound_applies: bool,
}

impl CmpOpts {
    pub fn new(c04: bool, s: &Shape) -> Self {
        CmpOpts {
            c04,
            shape_json: if c04 { serde_json::to_string(s).unwrap() } else { String::new() },
            alloc_bound_applies: !shape_has_map(s) && !has_zero_width_seq(s),
        }
    }
}

pub fn has_zero_width_seq(s: &Shape) -> bool {
    use Shape::*;
    match s {
        Seq(e) => e.min_width() == 0 || has_zero_width_seq(e),
        Option(i) | NewtypeStruct(i) => has_zero_width_seq(i),
        Tuple(l) | TupleStruct(l) | Struct(l) => l.iter().any(has_zero_width_seq),
        Map(k, v) => has_zero_width_seq(k) || has_zero_width_seq(v),
        Enum(vs) => vs.iter().any(|(_, v)| match v {
            VShape::Unit => false,
            VShape::Newtype(s) => has_zero_width_seq(s),
            VShape::Tuple(l) | VShape::Struct(l) => l.iter().any(has_zero_width_seq),
        }),
        _ => false,
    }
}

/// Compare the real decoder with the spec decoder on one input. Shape must be current (with_shape).
pub fn compare_decode(ctx: &Ctx, s: &Shape, input: &[u8], order: u64, st: &mut LocalStats, opts: &CmpOpts) {
    let sd = spec_decode(s, input);
    if sd.budget_exceeded || sd.max_zero_width_claim > 4096 {
        // a sequence of zero-width elements costs time proportional to its claimed length by
        // construction of serde's visitors (carved out by C04's quantifier); not executed.
        st.skipped_zero_width += 1;
        return;
    }
    st.evals += 1;
    if input.len() >= 2 || sd.result.is_ok() {
        st.nontrivial += 1;
    }
    let placements: &[bool] = if opts.c04 { &[true, false] } else { &[true] };
    for &at_end in placements {
        let borrows = Borrows::default();
        let (res, base, stats) = with_arena(input.len() + 16, |a| {
            let inp: &[u8] = a.place(input, at_end);
            let base = inp.as_ptr() as usize;
            if opts.c04 {
                let mut case = Vec::with_capacity(64 + opts.shape_json.len() + 3 * input.len());
                case.extend_from_slice(b"{\"shape\":");
                case.extend_from_slice(opts.shape_json.as_bytes());
                case.extend_from_slice(b",\"guard_at_end\":");
                case.extend_from_slice(if at_end { b"true" } else { b"false" });
                case.extend_from_slice(b",\"input\":\"");
                for b in input {
                    const H: &[u8; 16] = b"0123456789abcdef";
                    case.push(H[(b >> 4) as usize]);
                    case.push(H[(b & 15) as usize]);
                    case.push(b' ');
                }
                case.extend_from_slice(b"\"}");
                set_case(&case);
            }
            let cap = 64 * 1024 * 1024;
            let (r, stats) = count_allocs(cap, || {
                trap(|| {
                    with_shape_borrows(s, &borrows, || match postcard::take_from_bytes::<Dyn>(inp) {
                        Ok((Dyn(v), rem)) => Ok((v, rem.as_ptr() as usize, rem.len())),
                        Err(e) => Err(e),
                    })
                })
            });
            (r, base, stats)
        });
        let case = || json!({"shape": s, "input": hex(input), "guard_at_end": at_end});
        let res = match res {
            Ok(r) => r,
            Err(p) => {
                ctx.violation("panic", format!("decoder panicked: {p}"), order, case());
                return;
            }
        };
        match (&sd.result, &res) {
            (Ok((v, consumed)), Ok((rv, rem_ptr, rem_len))) => {
                if at_end == placements[0] {
                    st.accepted += 1;
                    *st.classes.entry("accept").or_insert(0) += 1;
                }
                if opts.c04 {
                    // C04 is about totality / bounds / resources: what is decoded is C03's concern.
                    // The remainder must still be a suffix of the input (memory safety).
                    let off = rem_ptr.wrapping_sub(base);
                    if off > input.len() || off + rem_len != input.len() {
                        ctx.violation("remainder-outside-input", format!("remainder at +{} len {} for an input of {} bytes", off, rem_len, input.len()), order, case());
                    }
                    for (p, l) in borrows.ranges.borrow().iter() {
                        let o = p.wrapping_sub(base);
                        if o > input.len() || o + l > input.len() {
                            ctx.violation("borrow-outside-input", format!("borrowed slice at +{} len {} lies outside the {}-byte input", o, l, input.len()), order, case());
                        }
                    }
                    if v == rv {
                        let got: Vec<(usize, usize)> = borrows.ranges.borrow().iter().map(|(p, l)| (p.wrapping_sub(base), *l)).collect();
                        let want: Vec<(usize, usize)> = sd.takes.iter().filter(|t| t.borrowed).map(|t| (t.off, t.len)).collect();
                        if got != want {
                            ctx.violation("borrow-range", format!("borrowed ranges {:?}, the fields were encoded at {:?}", got, want), order, case());
                        }
                    }
                } else if v != rv {
                    ctx.violation("value", format!("decoded {:?}, spec says {:?}", rv, v), order, case());
                } else if *rem_ptr != base + consumed || *rem_len != input.len() - consumed {
                    ctx.violation(
                        "remainder",
                        format!("remainder at +{} len {}, spec consumed {}", rem_ptr.wrapping_sub(base), rem_len, consumed),
                        order,
                        case(),
                    );
                } else if at_end == placements[0] {
                    // the reader entry points accept the same message and leave exactly the same bytes unread
                    let want_rest = input.len() - consumed;
                    let mut scratch = vec![0u8; input.len() + 8];
                    match trap(|| postcard::from_io::<Dyn, _>((input, &mut scratch[..])).map(|(Dyn(x), (rest, _))| (x, rest.len()))) {
                        Ok(Ok((x, rest))) if &x == v && rest == want_rest => {}
                        other => ctx.violation("reader-disagrees", format!("from_io gives {:?}; the slice decoder accepts {:?} and leaves {} bytes", other, v, want_rest), order, case()),
                    }
                    let mut scratch = vec![0u8; input.len() + 8];
                    match trap(|| postcard::from_eio::<Dyn, _>((crate::checks::c01::EioSlice(input), &mut scratch[..])).map(|(Dyn(x), (rest, _))| (x, rest.0.len()))) {
                        Ok(Ok((x, rest))) if &x == v && rest == want_rest => {}
                        other => ctx.violation("reader-disagrees", format!("from_eio gives {:?}; the slice decoder accepts {:?} and leaves {} bytes", other, v, want_rest), order, case()),
                    }
                }
            }
            (Err(k), Err(e)) => {
                if at_end == placements[0] {
                    *st.classes.entry(kind_name(*k)).or_insert(0) += 1;
                }
                if !opts.c04 && *k != ErrKind::Other && map_err(e) != *k {
                    ctx.violation("error-kind", format!("rejected with {:?}, spec names {:?}", e, k), order, case());
                }
            }
            (Err(_), Ok((_, rem_ptr, rem_len))) if opts.c04 => {
                let off = rem_ptr.wrapping_sub(base);
                if off > input.len() || off + rem_len != input.len() {
                    ctx.violation("remainder-outside-input", format!("remainder at +{} len {} for an input of {} bytes", off, rem_len, input.len()), order, case());
                }
                for (p, l) in borrows.ranges.borrow().iter() {
                    let o = p.wrapping_sub(base);
                    if o > input.len() || o + l > input.len() {
                        ctx.violation("borrow-outside-input", format!("borrowed slice at +{} len {} lies outside the {}-byte input", o, l, input.len()), order, case());
                    }
                }
            }
            (Ok(_), Err(_)) if opts.c04 => {}
            (Err(k), Ok((rv, _, rem_len))) => {
                // classify the known char defect precisely
                let lenient = lenient_char_decode(s, input);
                let class = match lenient {
                    Some((lv, lc)) if &lv == rv && input.len() - rem_len == lc && *k == ErrKind::BadChar => "char-multi-scalar-accepted",
                    _ => "too-lax",
                };
                ctx.violation(class, format!("accepted as {:?}, spec rejects with {:?}", rv, k), order, case());
            }
            (Ok((v, _)), Err(e)) => {
                ctx.violation("too-strict", format!("rejected with {:?}, spec accepts as {:?}", e, v), order, case());
            }
        }
        if opts.c04 {
            // allocation bound: a multiple of the input length depending only on the element type.
            // Val nodes are 48 bytes; Vec doubling x2; strings copied once; maps excluded (see DESIGN 4b.4)
            if opts.alloc_bound_applies {
                let bound = 2 * std::mem::size_of::<Val>() as u64 * 4 * (input.len() as u64 + 8) * depth(s) as u64;
                if stats.requested > bound {
                    ctx.violation(
                        "alloc-bound",
                        format!("{} bytes requested from the allocator for a {}-byte input (bound {})", stats.requested, input.len(), bound),
                        order,
                        case(),
                    );
                }
            }
        }
    }
}

pub fn shape_has_map(s: &Shape) -> bool {
    let mut k = std::collections::BTreeSet::new();
    s.kinds(&mut k);
    k.contains("map")
}
pub fn depth(s: &Shape) -> usize {
    use Shape::*;
    match s {
        Option(i) | NewtypeStruct(i) | Seq(i) => 1 + depth(i),
        Tuple(l) | TupleStruct(l) | Struct(l) => 1 + l.iter().map(depth).max().unwrap_or(0),
        Map(k, v) => 1 + depth(k).max(depth(v)),
        Enum(vs) => {
            1 + vs
                .iter()
                .map(|(_, v)| match v {
                    VShape::Unit => 0,
                    VShape::Newtype(s) => depth(s),
                    VShape::Tuple(l) | VShape::Struct(l) => l.iter().map(depth).max().unwrap_or(0),
                })
                .max()
                .unwrap_or(0)
        }
        _ => 1,
    }
}

// ---------------------------------------------------------------------------------------------
// (a) integer readers: typed, whole string spaces
// ---------------------------------------------------------------------------------------------

macro_rules! int_sweep {
    ($fname:ident, $ty:ty, $bits:expr, $signed:expr) => {
        fn $fname(ctx: &Ctx, alpha: &[u8], max_len: usize, label: &str) -> (u64, u64) {
            // enumerate all strings of length 0..=max_len; parallel over the first two symbols
            let evals = AtomicU64::new(0);
            let accepted = AtomicU64::new(0);
            let n = alpha.len();
            let mut prefixes: Vec<Vec<u8>> = vec![vec![]];
            if max_len >= 1 {
                for a in alpha {
                    prefixes.push(vec![*a]);
                }
            }
            let mut tasks: Vec<(Vec<u8>, bool)> = vec![];
            // strings of length < 2 are handled whole; longer strings are sharded by 2-symbol prefix
            for p in &prefixes {
                tasks.push((p.clone(), false));
            }
            if max_len >= 2 {
                for a in alpha {
                    for b in alpha {
                        tasks.push((vec![*a, *b], true));
                    }
                }
            }
            // `slow` = every single decoder call under the panic trap (used to locate the input after a task
            // of the fast path has panicked); the fast path traps once per task, which also lets the
            // non-termination watchdog see the thread as "inside the library"
            let task = |pre: &Vec<u8>, extend: bool, slow: bool| {
                let extend = &extend;
                let mut local_e = 0u64;
                let mut local_a = 0u64;
                let lens: Vec<usize> = if *extend { (0..=max_len - 2).collect() } else { vec![0] };
                for extra in lens {
                    let mut buf = pre.clone();
                    buf.resize(pre.len() + extra, alpha[0]);
                    let mut idx = vec![0usize; extra];
                    loop {
                        local_e += 1;
                        // reference
                        let mut d = Dec::new(&buf);
                        let want: Result<(i128, u128, usize), ErrKind> = d.varint($bits).map(|u| (unzigzag(u), u, d.pos));
                        let call = || postcard::take_from_bytes::<$ty>(&buf).map(|(g, rem)| (g, rem.len(), rem.as_ptr() as usize));
                        let mut panicked = false;
                        let got = if slow {
                            match trap(call) {
                                Ok(g) => g,
                                Err(p) => {
                                    ctx.violation(&format!("int-panic:{}", label), format!("decoder panicked: {p}"), local_e, json!({"type": stringify!($ty), "input": hex(&buf)}));
                                    panicked = true;
                                    Err(postcard::Error::DeserializeUnexpectedEnd)
                                }
                            }
                        } else {
                            call()
                        };
                        match (&want, &got) {
                            _ if panicked => {}
                            (Ok((sv, uv, c)), Ok((g, rem_len, rem_ptr))) => {
                                local_a += 1;
                                let same = if $signed { *g as i128 == *sv } else { *g as u128 == *uv };
                                if !same || *rem_len != buf.len() - c || *rem_ptr != buf.as_ptr() as usize + *c {
                                    ctx.violation(
                                        &format!("int-value:{}", label),
                                        format!("decoded {:?} rem {}, spec value {} consumed {}", g, rem_len, if $signed { sv.to_string() } else { uv.to_string() }, c),
                                        local_e,
                                        json!({"type": stringify!($ty), "input": hex(&buf)}),
                                    );
                                }
                            }
                            (Err(k), Err(e)) => {
                                if map_err(e) != *k {
                                    ctx.violation(
                                        &format!("int-error-kind:{}", label),
                                        format!("rejected with {:?}, spec names {:?}", e, k),
                                        local_e,
                                        json!({"type": stringify!($ty), "input": hex(&buf)}),
                                    );
                                }
                            }
                            (Ok(w), Err(e)) => ctx.violation(
                                &format!("int-too-strict:{}", label),
                                format!("rejected with {:?}, spec accepts {:?}", e, w),
                                local_e,
                                json!({"type": stringify!($ty), "input": hex(&buf)}),
                            ),
                            (Err(k), Ok((g, _, _))) => ctx.violation(
                                &format!("int-too-lax:{}", label),
                                format!("accepted as {:?}, spec rejects with {:?}", g, k),
                                local_e,
                                json!({"type": stringify!($ty), "input": hex(&buf)}),
                            ),
                        }
                        // next string
                        let mut i = extra;
                        let mut done = true;
                        while i > 0 {
                            i -= 1;
                            idx[i] += 1;
                            if idx[i] < n {
                                buf[pre.len() + i] = alpha[idx[i]];
                                done = false;
                                break;
                            }
                            idx[i] = 0;
                            buf[pre.len() + i] = alpha[0];
                        }
                        if done {
                            break;
                        }
                    }
                }
                if slow || !std::thread::panicking() {
                    evals.fetch_add(local_e, Ordering::Relaxed);
                    accepted.fetch_add(local_a, Ordering::Relaxed);
                }
            };
            tasks.par_iter().for_each(|(pre, extend)| {
                if trap(|| task(pre, *extend, false)).is_err() {
                    task(pre, *extend, true);
                }
            });
            (evals.load(Ordering::Relaxed), accepted.load(Ordering::Relaxed))
        }
    };
}
int_sweep!(sweep_u16, u16, 16, false);
int_sweep!(sweep_i16, i16, 16, true);
int_sweep!(sweep_u32, u32, 32, false);
int_sweep!(sweep_i32, i32, 32, true);
int_sweep!(sweep_u64, u64, 64, false);
int_sweep!(sweep_i64, i64, 64, true);
int_sweep!(sweep_usize, usize, 64, false);
int_sweep!(sweep_isize, isize, 64, true);
int_sweep!(sweep_u128, u128, 128, false);
int_sweep!(sweep_i128, i128, 128, true);

fn integer_readers(ctx: &Ctx) {
    let all: Vec<u8> = (0..=255u8).collect();
    let l16 = if ctx.quick() { 3 } else { 4 };
    let mut total = 0u64;
    let mut acc = 0u64;
    for (name, r) in [("u16", sweep_u16(ctx, &all, l16, "u16")), ("i16", sweep_i16(ctx, &all, l16, "i16"))] {
        ctx.class(&format!("int:{name}:strings"), r.0);
        total += r.0;
        acc += r.1;
    }
    // 32-bit: lim = 15
    let a32: [u8; 10] = [0x00, 0x01, 0x0F, 0x10, 0x7F, 0x80, 0x81, 0x8F, 0x90, 0xFF];
    for (name, r) in [("u32", sweep_u32(ctx, &a32, 6, "u32")), ("i32", sweep_i32(ctx, &a32, 6, "i32"))] {
        ctx.class(&format!("int:{name}:strings"), r.0);
        total += r.0;
        acc += r.1;
    }
    // 64-bit: lim = 1
    let a64q: [u8; 5] = [0x00, 0x01, 0x02, 0x80, 0xFF];
    let a64t: [u8; 8] = [0x00, 0x01, 0x02, 0x7F, 0x80, 0x81, 0x82, 0xFF];
    let a64: &[u8] = if ctx.quick() { &a64q } else { &a64t };
    let l64 = if ctx.quick() { 11 } else { 11 };
    for (name, r) in [
        ("u64", sweep_u64(ctx, a64, l64, "u64")),
        ("i64", sweep_i64(ctx, if ctx.quick() { &a64q[..] } else { &a64q[..] }, 11, "i64")),
        ("usize", sweep_usize(ctx, &a64q, 11, "usize")),
        ("isize", sweep_isize(ctx, &a64q, 11, "isize")),
    ] {
        ctx.class(&format!("int:{name}:strings"), r.0);
        total += r.0;
        acc += r.1;
    }
    // 128-bit: lim = 3 ; max len 19
    if ctx.quick() {
        // c^j . s : every group index reached with both continuation fillers, every ending
        let endings: [u8; 5] = [0x00, 0x03, 0x04, 0x80, 0xFF];
        let mut cases: Vec<Vec<u8>> = vec![];
        for c in [0x80u8, 0xFF] {
            for j in 0..=19usize {
                for sl in 0..=4usize {
                    if j + sl > 20 {
                        continue;
                    }
                    vmodel::for_each_string(&endings, sl, &mut |s| {
                        let mut v = vec![c; j];
                        v.extend_from_slice(s);
                        cases.push(v);
                    });
                }
            }
        }
        let n = cases.len() as u64;
        cases.par_iter().enumerate().for_each(|(i, buf)| {
            for signed in [false, true] {
                let mut d = Dec::new(buf);
                let want = d.varint(128).map(|u| (u, d.pos));
                let bad = if signed {
                    match (trap(|| postcard::take_from_bytes::<i128>(buf)), &want) {
                        (Ok(Ok((g, rem))), Ok((u, c))) => g != unzigzag(*u) || rem.len() != buf.len() - c,
                        (Ok(Err(e)), Err(k)) => map_err(&e) != *k,
                        _ => true,
                    }
                } else {
                    match (trap(|| postcard::take_from_bytes::<u128>(buf)), &want) {
                        (Ok(Ok((g, rem))), Ok((u, c))) => g != *u || rem.len() != buf.len() - c,
                        (Ok(Err(e)), Err(k)) => map_err(&e) != *k,
                        _ => true,
                    }
                };
                if bad {
                    ctx.violation("int:128", format!("128-bit reader disagrees with spec ({:?})", want), i as u64, json!({"signed": signed, "input": hex(buf)}));
                }
            }
        });
        ctx.class("int:128:structured-strings", 2 * n);
        total += 2 * n;
    } else {
        let a128: [u8; 4] = [0x00, 0x04, 0x80, 0xFF];
        let r = sweep_u128(ctx, &a128[..], 15, "u128");
        ctx.class("int:u128:strings", r.0);
        total += r.0;
        acc += r.1;
        let a128b: [u8; 3] = [0x03, 0x80, 0xFF];
        let r = sweep_u128(ctx, &a128b[..], 20, "u128");
        ctx.class("int:u128:strings-3sym-len20", r.0);
        total += r.0;
        acc += r.1;
        let r = sweep_i128(ctx, &a128b[..], 20, "i128");
        ctx.class("int:i128:strings-3sym-len20", r.0);
        total += r.0;
        acc += r.1;
    }
    ctx.add_evals(total);
    ctx.add_nontrivial(total);
    ctx.class("int:accepted", acc);
}

// ---------------------------------------------------------------------------------------------
// (b) shapes x all strings over A_dec; (c) perturbations of valid encodings
// ---------------------------------------------------------------------------------------------

pub fn perturbations(e: &[u8], segs: &[Segment], alpha: &[u8], out: &mut Vec<Vec<u8>>) {
    // every strict prefix
    for l in 0..e.len() {
        out.push(e[..l].to_vec());
    }
    // every single-byte substitution
    for i in 0..e.len().min(48) {
        for &b in alpha {
            if e[i] != b {
                let mut m = e.to_vec();
                m[i] = b;
                out.push(m);
            }
        }
    }
    // varint re-paddings and adversarial length prefixes
    for sg in segs {
        let bits = match sg.role {
            Role::Varint(b) => b,
            Role::Len => 64,
            Role::Discr => 32,
            _ => continue,
        };
        let bytes = &e[sg.off..sg.off + sg.len];
        let mut d = Dec::new(bytes);
        let val = match d.varint(bits) {
            Ok(v) => v,
            Err(_) => continue,
        };
        for padlen in sg.len + 1..=max_varint_len(bits) + 1 {
            if let Some(p) = varint_padded(val, padlen) {
                let mut m = e[..sg.off].to_vec();
                m.extend_from_slice(&p);
                m.extend_from_slice(&e[sg.off + sg.len..]);
                out.push(m);
            }
        }
        if sg.role == Role::Len {
            let rem = (e.len() - sg.off - sg.len) as u128;
            for adv in [0u128, 1, rem, rem + 1, 1 << 7, 1 << 14, (1 << 32) - 1, 1 << 32, 1 << 63, u64::MAX as u128] {
                for pad in [0usize, 1] {
                    if let Some(p) = varint_padded(adv, varint_len(adv) + pad) {
                        let mut m = e[..sg.off].to_vec();
                        m.extend_from_slice(&p);
                        m.extend_from_slice(&e[sg.off + sg.len..]);
                        out.push(m);
                    }
                }
            }
        }
    }
}

pub fn run(ctx: &Ctx, c04: bool) {
    let t0 = std::time::Instant::now();
    if !c04 {
        integer_readers(ctx);
    }
    eprintln!("[c03] integer readers: {:.1}s", t0.elapsed().as_secs_f64());
    let (shapes, k) = shapes_for(ctx, 3, 3);
    let strlen = if ctx.quick() { 4 } else { 5 };
    // all strings over A_dec up to strlen
    let mut strings: Vec<Vec<u8>> = vec![];
    for l in 0..=strlen {
        vmodel::for_each_string(&A_DEC, l, &mut |s| strings.push(s.to_vec()));
    }
    let skipped = AtomicU64::new(0);
    let nstr = strings.len();
    shapes.par_iter().enumerate().for_each(|(si, s)| {
        let mut st = LocalStats::default();
        let opts = CmpOpts::new(c04, s);
        with_shape(s, || {
            for (xi, x) in strings.iter().enumerate() {
                compare_decode(ctx, s, x, (si as u64) << 24 | xi as u64, &mut st, &opts);
            }
        });
        ctx.add_evals(st.evals);
        ctx.add_nontrivial(st.nontrivial);
        skipped.fetch_add(st.skipped_zero_width, Ordering::Relaxed);
        let m: BTreeMap<String, u64> = st.classes.iter().map(|(k, v)| (k.to_string(), *v)).collect();
        ctx.merge_classes(&m);
    });
    eprintln!("[c03] shapes x strings: {:.1}s", t0.elapsed().as_secs_f64());
    // thorough: S(4) x strings <= 3/4
    if !ctx.quick() {
        let en = ShapeEnum::new(4, 3);
        let s4 = en.exact(4);
        let mut strings4: Vec<Vec<u8>> = vec![];
        for l in 0..=(if c04 { 3 } else { 4 }) {
            vmodel::for_each_string(&A_DEC, l, &mut |s| strings4.push(s.to_vec()));
        }
        s4.par_iter().enumerate().for_each(|(si, s)| {
            let mut st = LocalStats::default();
            let opts = CmpOpts::new(c04, s);
            with_shape(s, || {
                for (xi, x) in strings4.iter().enumerate() {
                    compare_decode(ctx, s, x, (1u64 << 40) | (si as u64) << 20 | xi as u64, &mut st, &opts);
                }
            });
            ctx.add_evals(st.evals);
            ctx.add_nontrivial(st.nontrivial);
            skipped.fetch_add(st.skipped_zero_width, Ordering::Relaxed);
            let m: BTreeMap<String, u64> = st.classes.iter().map(|(k, v)| (k.to_string(), *v)).collect();
            ctx.merge_classes(&m);
        });
        ctx.ev.lock().unwrap().bound("shapes_4_nodes", json!(s4.len()));
    }
    // (c) perturbations of every valid encoding
    let dom = Domain { cap: 256, long: false };
    let pert_total = AtomicU64::new(0);
    shapes.par_iter().enumerate().for_each(|(si, s)| {
        let mut st = LocalStats::default();
        let level = if s.nodes() <= 1 { 1 } else { 2 };
        let vals = dom.values(s, level);
        let opts = CmpOpts::new(c04, s);
        with_shape(s, || {
            let mut perts = vec![];
            for (vi, v) in vals.iter().enumerate() {
                let (e, segs) = spec_encode_segs(v).unwrap();
                if e.len() > 300 {
                    continue;
                }
                perts.clear();
                perturbations(&e, &segs, &A_DEC, &mut perts);
                for (pi, p) in perts.iter().enumerate() {
                    let order = (2u64 << 40) | (si as u64) << 24 | (vi as u64) << 12 | (pi as u64 & 0xFFF);
                    // strict prefixes of a valid message must be unexpected-end: enforced by the spec decoder
                    compare_decode(ctx, s, p, order, &mut st, &opts);
                }
            }
        });
        pert_total.fetch_add(st.evals, Ordering::Relaxed);
        ctx.add_evals(st.evals);
        ctx.add_nontrivial(st.nontrivial);
        skipped.fetch_add(st.skipped_zero_width, Ordering::Relaxed);
        let m: BTreeMap<String, u64> = st.classes.iter().map(|(k, v)| (k.to_string(), *v)).collect();
        ctx.merge_classes(&m);
    });
    ctx.class("perturbations-of-valid-encodings", pert_total.load(Ordering::Relaxed));
    ctx.class("skipped:zero-width-sequence-claims", skipped.load(Ordering::Relaxed));
    for c in ["accept", "reject:unexpected-end", "reject:bad-varint", "reject:bad-bool", "reject:bad-option", "reject:bad-utf8", "reject:bad-char"] {
        ctx.require_class(c);
    }
    let mut ev = ctx.ev.lock().unwrap();
    ev.bound("shape_nodes_max", json!(k));
    ev.bound("shapes", json!(shapes.len()));
    ev.bound("alphabet", json!(hex(&A_DEC)));
    ev.bound("string_len_max", json!(strlen));
    ev.bound("strings_per_shape", json!(nstr));
    ev.rule = if c04 {
        "every shape <= k nodes x every byte string over the decoder-relevant alphabet up to the length bound, plus all prefixes / single-byte substitutions / varint re-paddings / adversarial length prefixes of every valid encoding; each decoded twice with the input flush against a PROT_NONE page on either side, under a panic trap, a counting allocator and a borrowed-pointer-range check; cases are distinct by construction; non-trivial = accepted, or at least two input bytes".into()
    } else {
        "integer readers: every byte string up to the length bound over the stated alphabets (all 256 symbols for 16-bit); composite: every shape <= k nodes x every string over the decoder alphabet; plus every prefix/substitution/re-padding/adversarial-length perturbation of every valid encoding; real decoder compared with an independent spec decoder for accept/reject, value, consumed length, remainder pointer and error kind; cases are distinct by construction (enumeration without repetition); non-trivial = accepted, or at least two input bytes (the decoder gets past the first byte)".into()
    };
    ev.sample(json!({"shape": "u16", "input": "ff ff 04", "expect": "BadVarint"}));
    ev.sample(json!({"shape": shapes[shapes.len() / 2], "input": hex(&strings[nstr / 2])}));
    ev.sample(json!({"shape": shapes[shapes.len() / 3], "input": hex(&strings[nstr / 3])}));
    ev.assumptions = vec![
        "alphabet-restricted strings for >16-bit readers and composites; sufficiency rests on the per-group structure of the varint loops and on compositionality of the decoder".into(),
        "sequences of zero-width elements with claimed length > 4096 are not executed (carved out by C04's quantifier)".into(),
        "error kinds are compared only for the six kinds the property names".into(),
    ];
}
