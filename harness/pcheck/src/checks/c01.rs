//! C01 round-trip identity, C02 published wire format.

use crate::corpus::{for_each_owned_type, OwnedTy, OwnedVisitor};
use crate::dynval::{with_shape, Dyn};
use crate::rt::{hex, trap, with_arena, Ctx};
use rayon::prelude::*;
use serde_json::json;
use std::collections::{BTreeSet, VecDeque};
use std::sync::atomic::{AtomicU64, Ordering};
use vmodel::glue::AsData;
use vmodel::shape::*;
use vmodel::spec::{spec_encode, EncErr};

pub struct EioVec(pub Vec<u8>);
impl embedded_io::ErrorType for EioVec {
    type Error = embedded_io::ErrorKind;
}
impl embedded_io::Write for EioVec {
    fn write(&mut self, buf: &[u8]) -> Result<usize, Self::Error> {
        self.0.extend_from_slice(buf);
        Ok(buf.len())
    }
    fn flush(&mut self) -> Result<(), Self::Error> {
        Ok(())
    }
}
pub struct EioSlice<'a>(pub &'a [u8]);
impl embedded_io::ErrorType for EioSlice<'_> {
    type Error = embedded_io::ErrorKind;
}
impl embedded_io::Read for EioSlice<'_> {
    fn read(&mut self, buf: &mut [u8]) -> Result<usize, Self::Error> {
        let n = buf.len().min(self.0.len());
        buf[..n].copy_from_slice(&self.0[..n]);
        self.0 = &self.0[n..];
        Ok(n)
    }
}

/// a reader that hands out at most `k` bytes per call (short reads are legal for both Read traits)
pub struct Trickle<'a>(pub &'a [u8], pub usize);
impl std::io::Read for Trickle<'_> {
    fn read(&mut self, buf: &mut [u8]) -> std::io::Result<usize> {
        let n = buf.len().min(self.0.len()).min(self.1);
        buf[..n].copy_from_slice(&self.0[..n]);
        self.0 = &self.0[n..];
        Ok(n)
    }
}
impl embedded_io::ErrorType for Trickle<'_> {
    type Error = embedded_io::ErrorKind;
}
impl embedded_io::Read for Trickle<'_> {
    fn read(&mut self, buf: &mut [u8]) -> Result<usize, Self::Error> {
        let n = buf.len().min(self.0.len()).min(self.1);
        buf[..n].copy_from_slice(&self.0[..n]);
        self.0 = &self.0[n..];
        Ok(n)
    }
}

pub fn shapes_for(ctx: &Ctx, k_quick: usize, k_thorough: usize) -> (Vec<Shape>, usize) {
    let k = if ctx.quick() { k_quick } else { k_thorough };
    let en = ShapeEnum::new(k, 3);
    let mut shapes = en.upto(k);
    // variant-index sweep on every enum-containing shape of <= 3 nodes
    let small: Vec<Shape> = en.upto(k.min(3));
    for s in &small {
        shapes.extend(index_variations(s));
    }
    (shapes, k)
}

/// all encoders must produce exactly `e`
fn check_encoders(v: &Val, e: &[u8]) -> Result<(), String> {
    let d = AsData(v);
    // caller slice (guarded, ample)
    with_arena(e.len() + 16, |a| {
        let buf = a.flush_end(e.len() + 8);
        match postcard::to_slice(&d, buf) {
            Ok(out) if out == e => Ok(()),
            other => Err(format!("to_slice: {:?}", other.map(|o| hex(o)))),
        }
    })?;
    // fixed-capacity vector
    if e.len() <= 64 {
        match postcard::to_vec::<_, 64>(&d) {
            Ok(out) if out.as_slice() == e => {}
            other => return Err(format!("to_vec<64>: {:?}", other.map(|o| hex(&o)))),
        }
    } else if e.len() <= 20000 {
        match postcard::to_vec::<_, 20000>(&d) {
            Ok(out) if out.as_slice() == e => {}
            other => return Err(format!("to_vec<20000>: {:?}", other.map(|o| o.len()))),
        }
    }
    match postcard::to_stdvec(&d) {
        Ok(out) if out == e => {}
        other => return Err(format!("to_stdvec: {:?}", other.map(|o| hex(&o)))),
    }
    match postcard::to_extend(&d, Vec::<u8>::new()) {
        Ok(out) if out == e => {}
        other => return Err(format!("to_extend(Vec): {:?}", other.map(|o| hex(&o)))),
    }
    match postcard::to_extend(&d, VecDeque::<u8>::new()) {
        Ok(out) if out.iter().copied().eq(e.iter().copied()) => {}
        other => return Err(format!("to_extend(VecDeque): {:?}", other.map(|o| o.len()))),
    }
    match postcard::to_io(&d, Vec::<u8>::new()) {
        Ok(out) if out == e => {}
        other => return Err(format!("to_io: {:?}", other.map(|o| hex(&o)))),
    }
    match postcard::to_eio(&d, EioVec(vec![])) {
        Ok(out) if out.0 == e => {}
        other => return Err(format!("to_eio: {:?}", other.map(|o| hex(&o.0)))),
    }
    Ok(())
}

/// all decoders applied to e ++ suffix must return v and exactly the suffix
fn check_decoders(v: &Val, e: &[u8], need_scratch: usize) -> Result<(), String> {
    let suffixes: [&[u8]; 4] = [&[], &[0x00], &[0xFF, 0x80], e];
    for sfx in suffixes {
        let mut input = e.to_vec();
        input.extend_from_slice(sfx);
        for at_end in [true, false] {
            with_arena(input.len() + 16, |a| {
                let inp: &[u8] = a.place(&input, at_end);
                match postcard::from_bytes::<Dyn>(inp) {
                    Ok(Dyn(got)) if &got == v => {}
                    other => return Err(format!("from_bytes: {:?}", other)),
                }
                match postcard::take_from_bytes::<Dyn>(inp) {
                    Ok((Dyn(got), rem)) if &got == v => {
                        let want_ptr = unsafe { inp.as_ptr().add(e.len()) };
                        if rem.as_ptr() != want_ptr || rem.len() != sfx.len() {
                            return Err(format!("take_from_bytes remainder: len {} want {}", rem.len(), sfx.len()));
                        }
                    }
                    other => return Err(format!("take_from_bytes: {:?}", other.map(|x| x.0))),
                }
                Ok(())
            })?;
        }
        // reader based
        let mut scratch = vec![0u8; need_scratch + 4];
        match postcard::from_io::<Dyn, _>((&input[..], &mut scratch[..])) {
            Ok((Dyn(got), (rest, _scr))) if &got == v => {
                if rest.len() != sfx.len() {
                    return Err(format!("from_io consumed {} want {}", input.len() - rest.len(), e.len()));
                }
            }
            other => return Err(format!("from_io: {:?}", other.map(|x| x.0))),
        }
        let mut scratch = vec![0u8; need_scratch + 4];
        match postcard::from_eio::<Dyn, _>((EioSlice(&input[..]), &mut scratch[..])) {
            Ok((Dyn(got), (rest, _scr))) if &got == v => {
                if rest.0.len() != sfx.len() {
                    return Err(format!("from_eio consumed {} want {}", input.len() - rest.0.len(), e.len()));
                }
            }
            other => return Err(format!("from_eio: {:?}", other.map(|x| x.0))),
        }
        // the same through readers that deliver the stream in short pieces (1 or 3 bytes per call)
        if sfx.len() == 2 {
            for k in [1usize, 3] {
                let mut scratch = vec![0u8; need_scratch + 4];
                match postcard::from_io::<Dyn, _>((Trickle(&input[..], k), &mut scratch[..])) {
                    Ok((Dyn(got), (rest, _scr))) if &got == v && rest.0.len() == sfx.len() => {}
                    other => return Err(format!("from_io over a reader delivering {k} byte(s) per call: {:?}", other.map(|x| (x.0, x.1 .0 .0.len())))),
                }
                let mut scratch = vec![0u8; need_scratch + 4];
                match postcard::from_eio::<Dyn, _>((Trickle(&input[..], k), &mut scratch[..])) {
                    Ok((Dyn(got), (rest, _scr))) if &got == v && rest.0.len() == sfx.len() => {}
                    other => return Err(format!("from_eio over a reader delivering {k} byte(s) per call: {:?}", other.map(|x| (x.0, x.1 .0 .0.len())))),
                }
            }
        }
    }
    Ok(())
}

fn whole_domain_leaves(ctx: &Ctx, c02: bool) {
    // entire domain for char (u16/i16/u8/i8/bool are in the level-0 domains already)
    let total = AtomicU64::new(0);
    (0u32..0x110000).into_par_iter().for_each(|cp| {
        if let Some(c) = char::from_u32(cp) {
            let v = Val::Char(c);
            total.fetch_add(1, Ordering::Relaxed);
            with_shape(&Shape::Char, || leaf_case(ctx, &Shape::Char, &v, c02, cp as u64));
        }
    });
    ctx.add_evals(total.load(Ordering::Relaxed));
    ctx.add_nontrivial(total.load(Ordering::Relaxed));
    ctx.class("whole-domain:char", total.load(Ordering::Relaxed));
    if !ctx.quick() {
        // entire u32 / i32 / f32 domains
        let chunks: Vec<u32> = (0..4096u32).collect();
        chunks.par_iter().for_each(|&hi| {
            for lo in 0..(1u32 << 20) {
                let x = (hi << 20) | lo;
                leaf_case_fast(ctx, x, c02);
            }
        });
        let n = 3u64 << 32;
        ctx.add_evals(n);
        ctx.add_nontrivial(n);
        ctx.class("whole-domain:u32+i32+f32", n);
    }
}

fn leaf_case(ctx: &Ctx, s: &Shape, v: &Val, c02: bool, order: u64) {
    let r = trap(|| {
        let e = postcard::to_allocvec(&AsData(v)).map_err(|e| format!("to_allocvec: {e:?}"))?;
        if c02 {
            let want = spec_encode(v).unwrap();
            if e != want {
                return Err(format!("bytes {} != spec {}", hex(&e), hex(&want)));
            }
        } else {
            match postcard::take_from_bytes::<Dyn>(&e) {
                Ok((Dyn(got), rem)) if &got == v && rem.is_empty() => {}
                other => return Err(format!("round trip: {:?}", other)),
            }
        }
        Ok(())
    });
    let r = match r {
        Ok(x) => x,
        Err(p) => Err(format!("panic: {p}")),
    };
    if let Err(what) = r {
        ctx.violation("leaf", what, order, json!({"shape": s, "value": v}));
    }
}

fn leaf_case_fast(ctx: &Ctx, x: u32, c02: bool) {
    // u32, i32, f32 with the same bit pattern
    let mut buf = [0u8; 8];
    macro_rules! one {
        ($val:expr, $ty:ty, $mk:expr, $shape:expr) => {{
            let v: $ty = $val;
            let used = postcard::to_slice(&v, &mut buf).map(|b| b.len());
            match used {
                Ok(n) => {
                    let e = &buf[..n];
                    if c02 {
                        let want = spec_encode(&$mk(v)).unwrap();
                        if e != &want[..] {
                            ctx.violation("leaf", format!("bytes {} != spec {}", hex(e), hex(&want)), x as u64, json!({"shape": $shape, "value": $mk(v)}));
                        }
                    } else {
                        match postcard::take_from_bytes::<$ty>(e) {
                            Ok((got, rem)) if got.to_le_bytes() == v.to_le_bytes() && rem.is_empty() => {}
                            other => ctx.violation("leaf", format!("round trip {:?}", other), x as u64, json!({"shape": $shape, "value": $mk(v)})),
                        }
                    }
                }
                Err(e) => ctx.violation("leaf", format!("to_slice {e:?}"), x as u64, json!({"shape": $shape, "value": $mk(v)})),
            }
        }};
    }
    if let Err(p) = trap(|| {
        one!(x, u32, Val::U32, "u32");
        one!(x as i32, i32, Val::I32, "i32");
        one!(f32::from_bits(x), f32, |f: f32| Val::F32(f.to_bits()), "f32");
    }) {
        ctx.violation("leaf-panic", format!("panic on the 32-bit pattern {x:#x}: {p}"), x as u64, json!({"bits": x}));
    }
}

struct TypedRoundTrip<'a> {
    ctx: &'a Ctx,
    c02: bool,
    types: u64,
}
impl OwnedVisitor for TypedRoundTrip<'_> {
    fn visit<T: OwnedTy>(&mut self, name: &'static str) {
        self.types += 1;
        let vals = T::dom();
        self.ctx.add_evals(vals.len() as u64);
        self.ctx.add_nontrivial(vals.len() as u64);
        for (i, v) in vals.iter().enumerate() {
            let r = trap(|| -> Result<(), String> {
                let e = postcard::to_allocvec(v).map_err(|e| format!("to_allocvec {e:?}"))?;
                if self.c02 {
                    // usize/isize must encode like u64/i64 (64-bit host): checked via the recorded Val
                    let rec = crate::record::record(v).map_err(|e| format!("record: {e}"))?;
                    let want = spec_encode(&rec).map_err(|e| format!("spec: {e:?}"))?;
                    if e != want {
                        return Err(format!("bytes {} != spec {}", hex(&e), hex(&want)));
                    }
                    return Ok(());
                }
                let mut sbuf = vec![0u8; e.len() + 4];
                let s = postcard::to_slice(v, &mut sbuf).map_err(|e| format!("to_slice {e:?}"))?;
                if s != &e[..] {
                    return Err("to_slice != to_allocvec".into());
                }
                let io = postcard::to_io(v, Vec::new()).map_err(|e| format!("to_io {e:?}"))?;
                if io != e {
                    return Err("to_io != to_allocvec".into());
                }
                let mut input = e.clone();
                input.extend_from_slice(&[0xFF, 0x00]);
                let got: T = postcard::from_bytes(&input).map_err(|e| format!("from_bytes {e:?}"))?;
                if !got.biteq(v) {
                    return Err(format!("from_bytes value {:?}", got));
                }
                let (got, rem): (T, &[u8]) = postcard::take_from_bytes(&input).map_err(|e| format!("take_from_bytes {e:?}"))?;
                if !got.biteq(v) || rem != [0xFF, 0x00] {
                    return Err(format!("take_from_bytes value {:?} rem {}", got, hex(rem)));
                }
                let mut scratch = vec![0u8; e.len() + 8];
                let (got, (rest, _)) =
                    postcard::from_io::<T, _>((&input[..], &mut scratch[..])).map_err(|e| format!("from_io {e:?}"))?;
                if !got.biteq(v) || rest.len() != 2 {
                    return Err(format!("from_io value {:?} rest {}", got, rest.len()));
                }
                Ok(())
            });
            let r = match r {
                Ok(x) => x,
                Err(p) => Err(format!("panic: {p}")),
            };
            if let Err(what) = r {
                self.ctx.violation(&format!("typed:{name}"), what, i as u64, json!({"type": name, "value": format!("{:?}", v)}));
            }
        }
    }
}

#[derive(serde::Serialize, serde::Deserialize, Debug, PartialEq, Clone)]
struct Borrowed3<'a> {
    #[serde(borrow)]
    a: &'a str,
    n: u32,
    #[serde(borrow)]
    b: &'a [u8],
    #[serde(borrow)]
    c: &'a str,
    f: f64,
}

/// borrowed targets: the value handed back must still be equal AFTER decoding has finished (the
/// dynamic `Val` copies borrowed data at visit time and would hide aliasing in the scratch buffer)
fn borrowed_targets(ctx: &Ctx) {
    let strs = ["", "a", "temperature", "°C", "héllo wörld"];
    let bytes: [&[u8]; 4] = [&[], &[0], &[1, 2, 3], &[0xFF; 9]];
    let mut n = 0u64;
    for a in strs {
        for b in bytes {
            for c in strs {
                let v = Borrowed3 { a, n: 70000, b, c, f: -0.0 };
                n += 1;
                let r = trap(|| -> Result<(), String> {
                    let e = postcard::to_allocvec(&v).map_err(|e| format!("{e:?}"))?;
                    // two messages on one stream, scratch chained
                    let mut stream = e.clone();
                    stream.extend_from_slice(&e);
                    stream.push(0x77);
                    let got: Borrowed3 = postcard::from_bytes(&stream).map_err(|e| format!("from_bytes {e:?}"))?;
                    if got != v {
                        return Err(format!("from_bytes gave {:?}", got));
                    }
                    let mut scratch = vec![0u8; 2 * e.len() + 8];
                    let (m1, rest) = postcard::from_io::<Borrowed3, _>((&stream[..], &mut scratch[..])).map_err(|e| format!("from_io #1 {e:?}"))?;
                    let (m2, rest2) = postcard::from_io::<Borrowed3, _>(rest).map_err(|e| format!("from_io #2 {e:?}"))?;
                    if m1 != v || m2 != v {
                        return Err(format!("from_io gave {:?} then {:?}, expected {:?} twice", m1, m2, v));
                    }
                    if rest2.0 != [0x77] {
                        return Err(format!("reader left with {} bytes, expected 1", rest2.0.len()));
                    }
                    let mut scratch = vec![0u8; 2 * e.len() + 8];
                    let (m1, rest) = postcard::from_eio::<Borrowed3, _>((EioSlice(&stream[..]), &mut scratch[..])).map_err(|e| format!("from_eio #1 {e:?}"))?;
                    let (m2, _) = postcard::from_eio::<Borrowed3, _>(rest).map_err(|e| format!("from_eio #2 {e:?}"))?;
                    if m1 != v || m2 != v {
                        return Err(format!("from_eio gave {:?} then {:?}", m1, m2));
                    }
                    Ok(())
                });
                let r = match r {
                    Ok(x) => x,
                    Err(p) => Err(format!("panic: {p}")),
                };
                if let Err(what) = r {
                    ctx.violation("round-trip-borrowed", what, n, json!({"value": format!("{:?}", v)}));
                }
            }
        }
    }
    ctx.add_evals(n);
    ctx.add_nontrivial(n);
    ctx.class("borrowed-struct-values", n);
}

pub fn run(ctx: &Ctx, c02: bool) {
    let (shapes, k) = shapes_for(ctx, 3, 4);
    let dom = Domain { cap: if ctx.quick() { 1024 } else { 4096 }, long: true };
    let kinds = std::sync::Mutex::new(BTreeSet::new());
    let nvals = AtomicU64::new(0);
    let nontriv = AtomicU64::new(0);
    let samples = std::sync::Mutex::new(Vec::new());
    shapes.par_iter().enumerate().for_each(|(si, s)| {
        {
            let mut ks = BTreeSet::new();
            s.kinds(&mut ks);
            kinds.lock().unwrap().extend(ks);
        }
        let level = if s.nodes() <= 2 { 0 } else { 1 };
        let vals = dom.values(s, level);
        nvals.fetch_add(vals.len() as u64, Ordering::Relaxed);
        // non-trivial by rule: the value occupies at least one byte on the wire
        nontriv.fetch_add(vals.iter().filter(|v| spec_encode(v).map(|e| !e.is_empty()).unwrap_or(true)).count() as u64, Ordering::Relaxed);
        with_shape(s, || {
            for (vi, v) in vals.iter().enumerate() {
                let order = (si as u64) << 24 | vi as u64;
                let r = trap(|| -> Result<(), String> {
                    let e = postcard::to_allocvec(&AsData(v)).map_err(|e| format!("to_allocvec: {e:?}"))?;
                    if c02 {
                        let want = spec_encode(v).unwrap();
                        if e != want {
                            return Err(format!("bytes {} != spec {}", hex(&e), hex(&want)));
                        }
                        return Ok(());
                    }
                    check_encoders(v, &e)?;
                    // scratch for the reader path: every take is part of the encoding, so |e| always suffices
                    check_decoders(v, &e, e.len())
                });
                let r = match r {
                    Ok(x) => x,
                    Err(p) => Err(format!("panic: {p}")),
                };
                if let Err(what) = r {
                    ctx.violation(if c02 { "wire-format" } else { "round-trip" }, what, order, json!({"shape": s, "value": v}));
                }
                if si % 397 == (ctx.seed % 397) as usize && vi == vals.len() / 2 {
                    let mut sm = samples.lock().unwrap();
                    if sm.len() < 8 {
                        sm.push(json!({"shape": s, "value": v, "bytes": hex(&spec_encode(v).unwrap())}));
                    }
                }
            }
        });
    });
    let n = nvals.load(Ordering::Relaxed);
    ctx.add_evals(n);
    ctx.add_nontrivial(nontriv.load(Ordering::Relaxed));
    ctx.class("dyn-shape-values", n);

    if c02 {
        special_rules(ctx);
    }
    long_cases(ctx, c02);
    if !c02 {
        borrowed_targets(ctx);
    }
    whole_domain_leaves(ctx, c02);
    let mut tv = TypedRoundTrip { ctx, c02, types: 0 };
    for_each_owned_type(&mut tv);
    let ntypes = tv.types;

    let kinds = kinds.into_inner().unwrap();
    if kinds.len() != 29 {
        ctx.machinery(format!("vacuity guard: only {} of 29 data-model kinds exercised: {:?}", kinds.len(), kinds));
    }
    let mut ev = ctx.ev.lock().unwrap();
    ev.bound("shape_nodes_max", json!(k));
    ev.bound("shapes", json!(shapes.len()));
    ev.bound("typed_corpus_types", json!(ntypes));
    ev.bound("data_model_kinds_exercised", json!(kinds.len()));
    ev.bound("value_product_cap", json!(dom.cap));
    ev.rule = if c02 {
        "every shape tree with <= k nodes (lists 0..3, enums 1..2 variants + variant-index sweep) x the complete bounded value domain D(shape); to_allocvec bytes compared byte-for-byte with an independent encoder written from wire-format.md; plus SeqNoLen/MapNoLen/Display specials, whole char domain (and whole u32/i32/f32 in thorough), typed corpus recorded through an independent Serializer. Every case is a distinct (shape,value) pair (enumeration without repetition); non-trivial = the value occupies at least one byte on the wire.".into()
    } else {
        "every shape tree with <= k nodes x complete bounded value domain x {to_slice,to_vec,to_stdvec,to_extend(Vec),to_extend(VecDeque),to_io,to_eio} x {from_bytes,take_from_bytes,from_io,from_eio} x 4 suffixes x 2 guard-page placements; Val equality is bit-for-bit; remainder compared by pointer and length. Every case is a distinct (shape,value) pair (enumeration without repetition); non-trivial = the value occupies at least one byte on the wire.".into()
    };
    for s in samples.into_inner().unwrap() {
        ev.sample(s);
    }
    ev.assumptions = vec![
        "64/128-bit integers, long strings and long sequences use finite structured families (group boundaries, byte patterns), not whole domains; sufficiency rests on the per-group structure of the varint loops".into(),
        "type space = dynamic shapes of <= k nodes plus a finite typed corpus; serde attributes that change representation are out of scope".into(),
        "64-bit host only".into(),
    ];
}

/// C02 special rules: unknown length refused; collect_str == formatted text
fn special_rules(ctx: &Ctx) {
    let dom = Domain::default();
    let en = ShapeEnum::new(2, 2);
    let mut n = 0u64;
    // SeqNoLen / MapNoLen at top level, inside Some, inside tuple after a byte, inside struct variant
    let elem_sets: Vec<Vec<Val>> = vec![vec![], vec![Val::U8(1)], vec![Val::U16(300), Val::U16(0)]];
    for elems in &elem_sets {
        let nolen = [
            Val::SeqNoLen(elems.clone()),
            Val::MapNoLen(elems.iter().map(|e| (e.clone(), Val::Bool(true))).collect()),
        ];
        for nl in nolen {
            let wrappers: Vec<Val> = vec![
                nl.clone(),
                Val::Some(Box::new(nl.clone())),
                Val::Tuple(vec![Val::U8(7), nl.clone(), Val::U8(9)]),
                Val::NewtypeStruct(Box::new(nl.clone())),
                Val::Struct(vec![Val::Str("ab".into()), nl.clone()]),
                Val::Seq(vec![nl.clone()]),
                Val::Variant { pos: 0, idx: 1, data: VVal::Newtype(Box::new(nl.clone())) },
                Val::Variant { pos: 0, idx: 200, data: VVal::Struct(vec![Val::U32(70000), nl.clone()]) },
                Val::Map(vec![(Val::U8(1), nl.clone())]),
            ];
            for w in wrappers {
                n += 1;
                let r = trap(|| postcard::to_allocvec(&AsData(&w)));
                match r {
                    Ok(Err(postcard::Error::SerializeSeqLengthUnknown)) => {}
                    other => ctx.violation("unknown-length", format!("expected SerializeSeqLengthUnknown, got {:?}", other), n, json!({"value": w})),
                }
                // also through a bounded slice: still the length error, not mis-framed bytes
                let mut buf = [0u8; 64];
                let r = trap(|| postcard::to_slice(&AsData(&w), &mut buf).map(|b| b.to_vec()));
                match r {
                    Ok(Err(postcard::Error::SerializeSeqLengthUnknown)) => {}
                    other => ctx.violation("unknown-length", format!("to_slice: expected SerializeSeqLengthUnknown, got {:?}", other), n, json!({"value": w})),
                }
                debug_assert_eq!(spec_encode(&w), Err(EncErr::LengthUnknown));
            }
        }
    }
    ctx.class("unknown-length-refused", n);
    // Display fragments
    let texts: Vec<Vec<String>> = vec![
        vec![],
        vec!["".into()],
        vec!["a".into()],
        vec!["a".into(), "b".into()],
        vec!["é".into(), "€".into(), "😀".into()],
        vec!["".into(), "x".into(), "".into()],
        vec!["x".repeat(127)],
        vec!["x".repeat(127), "y".into()],
        vec!["é".repeat(64)],
        vec!["ab".repeat(100), "\0".into(), "z".repeat(16200)],
    ];
    let mut m = 0u64;
    for frags in &texts {
        let dv = Val::Display(frags.clone());
        let mut wrappers = vec![dv.clone(), Val::Some(Box::new(dv.clone())), Val::Tuple(vec![Val::U8(1), dv.clone(), Val::U8(2)])];
        // in every position of every 2-node shape's value is overkill; use seq + struct + variant
        wrappers.push(Val::Seq(vec![dv.clone(), dv.clone()]));
        wrappers.push(Val::Variant { pos: 1, idx: 128, data: VVal::Tuple(vec![dv.clone()]) });
        for w in wrappers {
            m += 1;
            let r = trap(|| postcard::to_allocvec(&AsData(&w)));
            let want = spec_encode(&w).unwrap();
            match r {
                Ok(Ok(b)) if b == want => {}
                other => ctx.violation("collect-str", format!("got {:?} want {}", other.map(|r| r.map(|b| hex(&b))), hex(&want)), m, json!({"value": w})),
            }
            // identical to the plain string of the concatenation
            let plain = Val::Str(frags.concat());
            if matches!(w, Val::Display(_)) {
                let a = trap(|| postcard::to_allocvec(&AsData(&plain)));
                if a != Ok(Ok(want.clone())) {
                    ctx.violation("collect-str", "plain string differs from spec".into(), m, json!({"value": plain}));
                }
            }
        }
    }
    // Display impls that go through write_char, and formatter padding with a multi-byte fill
    for t in ["", "a", "é", "€uro", "😀", "aé€😀", "ééééééééééééééééééééééééééééééééééééééééééééééééééééééééééééééé"] {
        for w in [Val::DisplayChars(t.to_string()), Val::Some(Box::new(Val::DisplayChars(t.to_string()))), Val::Tuple(vec![Val::U8(1), Val::DisplayChars(t.to_string()), Val::U8(2)])] {
            m += 1;
            let want = spec_encode(&w).unwrap();
            match trap(|| postcard::to_allocvec(&AsData(&w))) {
                Ok(Ok(b)) if b == want => {}
                other => ctx.violation("collect-str", format!("write_char Display: got {:?} want {}", other.map(|r| r.map(|b| hex(&b))), hex(&want)), m, json!({"value": w})),
            }
        }
    }
    struct Padded(&'static str);
    impl std::fmt::Display for Padded {
        fn fmt(&self, f: &mut std::fmt::Formatter<'_>) -> std::fmt::Result {
            write!(f, "{:→>8}|{:é<5}|{:^7}", self.0, self.0, self.0)
        }
    }
    struct CollectStr<T: std::fmt::Display>(T);
    impl<T: std::fmt::Display> serde::Serialize for CollectStr<T> {
        fn serialize<S: serde::Serializer>(&self, s: S) -> Result<S::Ok, S::Error> {
            s.collect_str(&self.0)
        }
    }
    for t in ["", "a", "é", "abcdefghij"] {
        m += 1;
        let text = Padded(t).to_string();
        let want = spec_encode(&Val::Str(text.clone())).unwrap();
        match trap(|| postcard::to_allocvec(&CollectStr(Padded(t)))) {
            Ok(Ok(b)) if b == want => {}
            other => ctx.violation("collect-str", format!("padded Display {:?}: got {:?} want {}", text, other.map(|r| r.map(|b| hex(&b))), hex(&want)), m, json!({"text": text})),
        }
    }
    for c in vmodel::shape::char_boundaries() {
        m += 1;
        let want = spec_encode(&Val::Str(c.to_string())).unwrap();
        match trap(|| postcard::to_allocvec(&CollectStr(c))) {
            Ok(Ok(b)) if b == want => {}
            other => ctx.violation("collect-str", format!("collect_str(char {:?}): got {:?} want {}", c, other.map(|r| r.map(|b| hex(&b))), hex(&want)), m, json!({"char": c.to_string()})),
        }
    }
    // unsized values passed directly (T = str, [u8], [u16]): an empty one is a zero-sized VALUE with a one-byte encoding
    for t in ["", "a", "é"] {
        m += 1;
        let want = spec_encode(&Val::Str(t.to_string())).unwrap();
        for (name, got) in [
            ("to_allocvec::<str>", trap(|| postcard::to_allocvec::<str>(t))),
            ("to_stdvec::<str>", trap(|| postcard::to_stdvec::<str>(t))),
            ("to_extend::<str>", trap(|| postcard::to_extend::<str, Vec<u8>>(t, Vec::new()))),
            ("to_slice::<str>", trap(|| {
                let mut b = [0u8; 16];
                postcard::to_slice::<str>(t, &mut b).map(|o| o.to_vec())
            })),
        ] {
            match got {
                Ok(Ok(b)) if b == want => {}
                other => ctx.violation("unsized-value", format!("{name}({:?}) gave {:?}, spec {}", t, other.map(|r| r.map(|b| hex(&b))), hex(&want)), m, json!({"str": t})),
            }
        }
    }
    for l in [0usize, 1, 3] {
        m += 1;
        let bytes: Vec<u8> = (0..l as u8).collect();
        let words: Vec<u16> = (0..l as u16).map(|x| x * 300).collect();
        let want_b = spec_encode(&Val::Seq(bytes.iter().map(|b| Val::U8(*b)).collect())).unwrap();
        let want_w = spec_encode(&Val::Seq(words.iter().map(|b| Val::U16(*b)).collect())).unwrap();
        match trap(|| postcard::to_allocvec::<[u8]>(&bytes)) {
            Ok(Ok(b)) if b == want_b => {}
            other => ctx.violation("unsized-value", format!("to_allocvec::<[u8]> len {l} gave {:?}", other.map(|r| r.map(|b| hex(&b)))), m, json!({"len": l})),
        }
        match trap(|| postcard::to_allocvec::<[u16]>(&words)) {
            Ok(Ok(b)) if b == want_w => {}
            other => ctx.violation("unsized-value", format!("to_allocvec::<[u16]> len {l} gave {:?}", other.map(|r| r.map(|b| hex(&b)))), m, json!({"len": l})),
        }
    }
    ctx.class("collect-str", m);
    ctx.add_evals(n * 2 + m);
    ctx.add_nontrivial(n + m);
    let _ = (dom, en);
}


/// values whose length prefixes sit at the larger varint boundaries (2^14, 2^21) and long sequences
fn long_cases(ctx: &Ctx, c02: bool) {
    let mut cases: Vec<(Shape, Val)> = vec![];
    for n in [16383usize, 16384, 16385, (1 << 21) - 1, 1 << 21] {
        cases.push((Shape::Bytes, Val::Bytes((0..n).map(|i| (i % 251) as u8).collect())));
        cases.push((Shape::Str, Val::Str("k".repeat(n))));
    }
    for n in [16383usize, 16384] {
        cases.push((Shape::Seq(Box::new(Shape::U8)), Val::Seq(vec![Val::U8(7); n])));
        cases.push((Shape::Seq(Box::new(Shape::U16)), Val::Seq((0..n).map(|i| Val::U16(i as u16)).collect())));
        cases.push((Shape::Map(Box::new(Shape::U16), Box::new(Shape::Bool)), Val::Map((0..n).map(|i| (Val::U16(i as u16), Val::Bool(i % 2 == 0))).collect())));
        cases.push((Shape::Tuple(vec![Shape::Str, Shape::Seq(Box::new(Shape::Unit)), Shape::U8]), Val::Tuple(vec![Val::Str("z".repeat(n)), Val::Seq(vec![Val::Unit; 300]), Val::U8(9)])));
    }
    cases.par_iter().enumerate().for_each(|(i, (s, v))| {
        with_shape(s, || {
            let r = trap(|| -> Result<(), String> {
                let e = postcard::to_allocvec(&AsData(v)).map_err(|e| format!("to_allocvec: {e:?}"))?;
                if c02 {
                    let want = spec_encode(v).unwrap();
                    if e != want {
                        return Err(format!("long value: {} bytes, spec {} bytes, first difference at {:?}", e.len(), want.len(), e.iter().zip(&want).position(|(a, b)| a != b)));
                    }
                    // the wire format does not depend on the encode entry point: every one of them must emit the
                    // specification's bytes for a long value too (staging/bypass paths only long chunks reach;
                    // round-8 seed C02-i)
                    let mut buf = vec![0u8; want.len() + 3];
                    let outs: Vec<(&str, Option<Vec<u8>>)> = vec![
                        ("to_slice", postcard::to_slice(&AsData(v), &mut buf).ok().map(|o| o.to_vec())),
                        ("to_stdvec", postcard::to_stdvec(&AsData(v)).ok()),
                        ("to_io", postcard::to_io(&AsData(v), Vec::new()).ok()),
                        ("to_extend", postcard::to_extend(&AsData(v), Vec::new()).ok()),
                        ("to_eio", postcard::to_eio(&AsData(v), EioVec(vec![])).ok().map(|o| o.0)),
                    ];
                    for (name, out) in outs {
                        if out.as_ref() != Some(&want) {
                            return Err(format!("long value through {name}: {:?} bytes, spec {} bytes, first difference at {:?}", out.as_ref().map(|o| o.len()), want.len(), out.as_ref().and_then(|o| o.iter().zip(&want).position(|(a, b)| a != b))));
                        }
                    }
                    return Ok(());
                }
                // encoders
                let mut buf = vec![0u8; e.len() + 3];
                if postcard::to_slice(&AsData(v), &mut buf).map(|o| o.len()) != Ok(e.len()) || buf[..e.len()] != e[..] {
                    return Err("to_slice differs from to_allocvec on a long value".into());
                }
                if postcard::to_io(&AsData(v), Vec::new()).ok().as_ref() != Some(&e) || postcard::to_extend(&AsData(v), Vec::new()).ok().as_ref() != Some(&e) {
                    return Err("to_io / to_extend differ from to_allocvec on a long value".into());
                }
                let mut input = e.clone();
                input.extend_from_slice(&[0xFF, 0x80]);
                match postcard::take_from_bytes::<Dyn>(&input) {
                    Ok((Dyn(got), rem)) if &got == v && rem == [0xFF, 0x80] => {}
                    other => return Err(format!("take_from_bytes on a long value: {:?}", other.map(|x| x.1.len()))),
                }
                let mut scratch = vec![0u8; e.len() + 8];
                match postcard::from_io::<Dyn, _>((&input[..], &mut scratch[..])) {
                    Ok((Dyn(got), (rest, _))) if &got == v && rest.len() == 2 => {}
                    other => return Err(format!("from_io on a long value: {:?}", other.map(|x| x.1 .0.len()))),
                }
                Ok(())
            });
            let r = match r {
                Ok(x) => x,
                Err(p) => Err(format!("panic: {p}")),
            };
            if let Err(what) = r {
                ctx.violation(if c02 { "wire-format-long" } else { "round-trip-long" }, what, i as u64, json!({"shape": s, "value_len": format!("{:?}", v).len()}));
            }
        });
    });
    ctx.add_evals(cases.len() as u64);
    ctx.add_nontrivial(cases.len() as u64);
    ctx.class("long-values(2^14, 2^21 boundaries)", cases.len() as u64);
}
