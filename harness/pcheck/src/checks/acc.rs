//! C08 / C09: explicit-state exploration of the real CobsAccumulator.

use crate::dynval::{with_shape, Dyn};
use crate::rt::{hex, trap, Ctx};
use postcard::accumulator::{CobsAccumulator, FeedResult};
use rayon::prelude::*;
use serde_json::{json, Value};
use std::collections::HashMap;
use std::sync::atomic::{AtomicU64, Ordering};
use vmodel::codecs::{acc_step, cobs_decode_frame, cobs_encode, AccOut};
use vmodel::shape::{Shape, Val};

#[derive(Clone, Debug)]
pub enum Target {
    Dyn(Shape),
    BorrowBytes,
    BorrowStr,
}

impl Target {
    fn name(&self) -> String {
        match self {
            Target::Dyn(s) => format!("feed::<{}>", serde_json::to_string(s).unwrap()),
            Target::BorrowBytes => "feed_ref::<&[u8]>".into(),
            Target::BorrowStr => "feed_ref::<&str>".into(),
        }
    }
    fn shape(&self) -> Shape {
        match self {
            Target::Dyn(s) => s.clone(),
            Target::BorrowBytes => Shape::Bytes,
            Target::BorrowStr => Shape::Str,
        }
    }
}

#[derive(Clone, Debug, PartialEq)]
pub enum ObsKind {
    Consumed,
    OverFull,
    DeserError,
    Success(Val),
}

#[derive(Clone, Debug, PartialEq)]
pub struct Obs {
    pub kind: ObsKind,
    /// offset of the returned remainder inside the chunk (chunk.len() when Consumed)
    pub rem_off: usize,
    pub rem_ok: bool,
}

fn rem_obs(chunk: &[u8], rem: &[u8]) -> (usize, bool) {
    let off = (rem.as_ptr() as usize).wrapping_sub(chunk.as_ptr() as usize);
    let ok = off <= chunk.len() && rem.len() == chunk.len() - off;
    (off, ok)
}

fn do_feed<const N: usize>(acc: &mut CobsAccumulator<N>, t: &Target, chunk: &[u8]) -> Obs {
    macro_rules! conv {
        ($r:expr, $mk:expr) => {
            match $r {
                FeedResult::Consumed => Obs { kind: ObsKind::Consumed, rem_off: chunk.len(), rem_ok: true },
                FeedResult::OverFull(rem) => {
                    let (o, ok) = rem_obs(chunk, rem);
                    Obs { kind: ObsKind::OverFull, rem_off: o, rem_ok: ok }
                }
                FeedResult::DeserError(rem) => {
                    let (o, ok) = rem_obs(chunk, rem);
                    Obs { kind: ObsKind::DeserError, rem_off: o, rem_ok: ok }
                }
                FeedResult::Success { data, remaining } => {
                    let (o, ok) = rem_obs(chunk, remaining);
                    Obs { kind: ObsKind::Success($mk(data)), rem_off: o, rem_ok: ok }
                }
            }
        };
    }
    match t {
        Target::Dyn(_) => conv!(acc.feed::<Dyn>(chunk), |d: Dyn| d.0),
        Target::BorrowBytes => conv!(acc.feed_ref::<&[u8]>(chunk), |d: &[u8]| Val::Bytes(d.to_vec())),
        Target::BorrowStr => conv!(acc.feed_ref::<&str>(chunk), |d: &str| Val::Str(d.to_string())),
    }
}

/// model prediction for one call
fn predict(cap: usize, shape: &Shape, pending: &[u8], chunk: &[u8]) -> (Obs, Vec<u8>) {
    let (out, np) = acc_step(cap, pending, chunk);
    let obs = match out {
        AccOut::Consumed => Obs { kind: ObsKind::Consumed, rem_off: chunk.len(), rem_ok: true },
        AccOut::OverFull(off) => Obs { kind: ObsKind::OverFull, rem_off: off, rem_ok: true },
        AccOut::Frame(frame, off) => Obs { kind: isolated(shape, &frame), rem_off: off, rem_ok: true },
    };
    (obs, np)
}

/// What the property prescribes for one zero-terminated segment (frame = bytes before the zero): the
/// decoded value when the segment is a well-formed frame of the target type, an error otherwise.
/// COBS well-formedness is decided by the reference decoder; the payload is decoded by the real PLAIN
/// decoder (so that a plain-codec bug is not reported here).
pub fn isolated(shape: &Shape, frame: &[u8]) -> ObsKind {
    match cobs_decode_frame(frame) {
        Err(()) => ObsKind::DeserError,
        Ok(payload) => match crate::checks::c05::real_decode(shape, &payload) {
            Ok((v, _)) => ObsKind::Success(v),
            Err(_) => ObsKind::DeserError,
        },
    }
}

fn key_of<const N: usize>(buf: &[u8; N], idx: usize) -> u128 {
    let mut k: u128 = idx as u128;
    for b in buf.iter() {
        k = (k << 8) | *b as u128;
    }
    k
}
fn state_of<const N: usize>(mut k: u128) -> ([u8; N], usize) {
    let mut buf = [0u8; N];
    for i in (0..N).rev() {
        buf[i] = (k & 0xFF) as u8;
        k >>= 8;
    }
    (buf, k as usize)
}

#[derive(Default, Clone)]
pub struct GraphStats {
    pub states: u64,
    pub transitions: u64,
    pub consumed: u64,
    pub overfull: u64,
    pub deser_error: u64,
    pub success: u64,
    pub resync_from_stale_states: u64,
    pub depth: u64,
    pub replayed_histories: u64,
    pub zero_progress: u64,
}

fn history(parents: &HashMap<u128, (u128, u32)>, chunks: &[Vec<u8>], mut k: u128) -> Vec<String> {
    let mut h = vec![];
    while let Some((p, c)) = parents.get(&k) {
        if *p == k {
            break;
        }
        h.push(hex(&chunks[*c as usize]));
        k = *p;
    }
    h.reverse();
    h
}

/// BFS over all reachable (buf, idx) states of the real accumulator; every transition is a
/// lock-step comparison with the step model.
pub fn explore<const N: usize>(ctx: &Ctx, t: &Target, chunks: &[Vec<u8>], c09: bool) -> GraphStats {
    let shape = t.shape();
    let tname = t.name();
    let init: CobsAccumulator<N> = CobsAccumulator::new();
    {
        let d: CobsAccumulator<N> = Default::default();
        if d.verif_state() != init.verif_state() {
            ctx.violation("acc-default", "Default::default() differs from new()".into(), 0, json!({"N": N}));
        }
    }
    let (b0, i0) = init.verif_state();
    let k0 = key_of::<N>(b0, i0);
    let mut parents: HashMap<u128, (u128, u32)> = HashMap::new();
    parents.insert(k0, (k0, 0));
    let mut frontier = vec![k0];
    let mut st = GraphStats::default();
    let trans = AtomicU64::new(0);
    let cnt = [AtomicU64::new(0), AtomicU64::new(0), AtomicU64::new(0), AtomicU64::new(0), AtomicU64::new(0), AtomicU64::new(0)];
    while !frontier.is_empty() {
        st.depth += 1;
        let results: Vec<Vec<(u128, u128, u32)>> = frontier
            .par_iter()
            .map(|&k| {
                let (buf, idx) = state_of::<N>(k);
                let mut succ = vec![];
                with_shape(&shape, || {
                    for (ci, chunk) in chunks.iter().enumerate() {
                        if !c09 && idx <= N {
                            // C08 quantifies over streams whose segments fit: transitions on which the
                            // model reports an overflow belong to C09's graph only
                            if let (AccOut::OverFull(_), _) = acc_step(N, &buf[..idx], chunk) {
                                continue;
                            }
                        }
                        let mut acc = CobsAccumulator::<N>::verif_from_state(buf, idx);
                        let r = trap(|| do_feed(&mut acc, t, chunk));
                        let case = |parents_hist: Value| json!({"N": N, "target": tname, "state_buf": hex(&buf), "state_idx": idx, "chunk": hex(chunk), "history": parents_hist});
                        let order = (st.depth << 40) | (ci as u64);
                        let obs = match r {
                            Ok(o) => o,
                            Err(p) => {
                                ctx.violation("acc-panic", format!("feed panicked: {p}"), order, case(Value::Null));
                                continue;
                            }
                        };
                        if idx > N {
                            continue;
                        }
                        if buf[..idx].contains(&0) {
                            // not a state of the model (pending bytes never contain a sentinel): only reachable
                            // through a transition that has already been reported
                            continue;
                        }
                        let (want, npend) = predict(N, &shape, &buf[..idx], chunk);
                        let (nb, ni) = acc.verif_state();
                        let nk = key_of::<N>(nb, ni);
                        trans.fetch_add(1, Ordering::Relaxed);
                        match &obs.kind {
                            ObsKind::Consumed => cnt[0].fetch_add(1, Ordering::Relaxed),
                            ObsKind::OverFull => cnt[1].fetch_add(1, Ordering::Relaxed),
                            ObsKind::DeserError => cnt[2].fetch_add(1, Ordering::Relaxed),
                            ObsKind::Success(_) => {
                                if buf[idx.min(N - 1)..].iter().any(|b| *b != 0) && idx == 0 {
                                    cnt[4].fetch_add(1, Ordering::Relaxed);
                                }
                                cnt[3].fetch_add(1, Ordering::Relaxed)
                            }
                        };
                        if ni > N {
                            ctx.violation("acc-index", format!("idx {} > N {}", ni, N), order, case(Value::Null));
                            continue;
                        }
                        // a transition that disagrees with the model is reported once and not explored further: the
                        // real state it leads to is outside the model's state space
                        let mut diverged = false;
                        if !obs.rem_ok {
                            diverged = true;
                            ctx.violation("acc-remainder", "returned remainder is not a suffix of the chunk".into(), order, case(Value::Null));
                        } else if obs != want {
                            diverged = true;
                            ctx.violation(
                                if c09 { "acc-step-c09" } else { "acc-step" },
                                format!("feed returned {:?}, model predicts {:?}", obs, want),
                                order,
                                case(Value::Null),
                            );
                        } else if nb[..ni] != npend[..] {
                            diverged = true;
                            ctx.violation(
                                "acc-pending",
                                format!("buffered bytes {} after the call, model pending {}", hex(&nb[..ni]), hex(&npend)),
                                order,
                                case(Value::Null),
                            );
                        }
                        // C09: a consumed zero byte puts the accumulator back in its initial fill state
                        if c09 && chunk[..obs.rem_off.min(chunk.len())].contains(&0) && ni != 0 {
                            ctx.violation("acc-no-reset", format!("idx {} after consuming a sentinel", ni), order, case(Value::Null));
                        }
                        // zero-progress cycle: nothing consumed and state unchanged
                        if !chunk.is_empty() && obs.rem_off == 0 && obs.kind != ObsKind::Consumed {
                            cnt[5].fetch_add(1, Ordering::Relaxed);
                            if nk == k {
                                ctx.violation("acc-no-progress", "call consumed nothing and left the state unchanged: the documented loop would spin".into(), order, case(Value::Null));
                            }
                        }
                        // keep only states not known before this level (parents is read-only here)
                        if !diverged && !parents.contains_key(&nk) {
                            succ.push((nk, k, ci as u32));
                        }
                    }
                });
                succ.sort();
                succ.dedup_by_key(|x| x.0);
                succ
            })
            .collect();
        let mut next = vec![];
        for v in results {
            for (nk, pk, ci) in v {
                if !parents.contains_key(&nk) {
                    parents.insert(nk, (pk, ci));
                    next.push(nk);
                }
            }
        }
        next.sort();
        frontier = next;
    }
    st.states = parents.len() as u64;
    st.transitions = trans.load(Ordering::Relaxed);
    st.consumed = cnt[0].load(Ordering::Relaxed);
    st.overfull = cnt[1].load(Ordering::Relaxed);
    st.deser_error = cnt[2].load(Ordering::Relaxed);
    st.success = cnt[3].load(Ordering::Relaxed);
    st.resync_from_stale_states = cnt[4].load(Ordering::Relaxed);
    st.zero_progress = cnt[5].load(Ordering::Relaxed);
    // validate the from_state hook: replay each state's shortest history on a fresh accumulator
    let keys: Vec<u128> = parents.keys().copied().collect();
    let bad = AtomicU64::new(0);
    keys.par_iter().for_each(|&k| {
        let h = {
            let mut h = vec![];
            let mut cur = k;
            while let Some((p, c)) = parents.get(&cur) {
                if *p == cur {
                    break;
                }
                h.push(*c as usize);
                cur = *p;
            }
            h.reverse();
            h
        };
        let mut acc: CobsAccumulator<N> = CobsAccumulator::new();
        with_shape(&shape, || {
            for c in &h {
                let _ = do_feed(&mut acc, t, &chunks[*c]);
            }
        });
        let (b, i) = acc.verif_state();
        if key_of::<N>(b, i) != k {
            bad.fetch_add(1, Ordering::Relaxed);
        }
    });
    st.replayed_histories = keys.len() as u64;
    if bad.load(Ordering::Relaxed) != 0 {
        ctx.machinery(format!("{} states did not reproduce when their history was replayed on a fresh accumulator (hook or determinism problem)", bad.load(Ordering::Relaxed)));
    }
    // attach a shortest history to any violation: (done lazily) store one sample history
    let _ = history(&parents, chunks, k0);
    st
}

// ---------------------------------------------------------------------------------------------
// (B) trace-level oracle: all streams x all chunkings, documented re-feed loop
// ---------------------------------------------------------------------------------------------

#[derive(Default)]
pub struct TraceStats {
    pub histories: u64,
    pub streams: u64,
    pub fitting_streams: u64,
    pub results: u64,
    pub max_iters: u64,
}

fn run_loop<const N: usize>(t: &Target, stream: &[u8], cuts: u32, results: &mut Vec<ObsKind>, overfull_at: &mut Vec<usize>) -> Result<u64, String> {
    // cuts: bit i set => cut after byte i (i in 0..len-1)
    let mut acc: CobsAccumulator<N> = CobsAccumulator::new();
    let mut iters = 0u64;
    let mut start = 0usize;
    let len = stream.len();
    let mut pos = 0usize; // absolute position consumed so far
    for i in 0..len {
        let is_cut = i == len - 1 || (cuts >> i) & 1 == 1;
        if !is_cut {
            continue;
        }
        let chunk = &stream[start..=i];
        start = i + 1;
        let mut window = chunk;
        while !window.is_empty() {
            iters += 1;
            if iters > 2 * len as u64 + 2 {
                return Err(format!("feed loop did not terminate within {} iterations", 2 * len + 2));
            }
            let o = do_feed(&mut acc, t, window);
            if !o.rem_ok {
                return Err("remainder is not a suffix of the window".into());
            }
            let consumed = o.rem_off;
            match o.kind {
                ObsKind::Consumed => {
                    pos += window.len();
                    break;
                }
                ObsKind::OverFull => {
                    overfull_at.push(pos + consumed);
                    results.push(ObsKind::OverFull);
                }
                k => results.push(k),
            }
            pos += consumed;
            window = &window[consumed..];
        }
    }
    if pos != len {
        return Err(format!("consumed {} of {} bytes", pos, len));
    }
    Ok(iters)
}

pub fn traces<const N: usize>(ctx: &Ctx, t: &Target, alpha: &[u8], max_len: usize, c09: bool) -> TraceStats {
    let shape = t.shape();
    let tname = t.name();
    let mut streams: Vec<Vec<u8>> = vec![];
    for l in 1..=max_len {
        vmodel::for_each_string(alpha, l, &mut |s| streams.push(s.to_vec()));
    }
    let hist = AtomicU64::new(0);
    let fitting = AtomicU64::new(0);
    let nres = AtomicU64::new(0);
    let maxit = AtomicU64::new(0);
    streams.par_iter().enumerate().for_each(|(si, stream)| {
        // expected: one entry per zero byte; segment must fit (incl. its sentinel) for C08
        let mut expected = vec![];
        let mut fits = true;
        let mut overlong: Vec<(usize, usize)> = vec![]; // (start, end_exclusive incl sentinel)
        let mut seg_start = 0;
        for (i, b) in stream.iter().enumerate() {
            if *b == 0 {
                let seg = &stream[seg_start..i];
                if seg.len() + 1 > N {
                    fits = false;
                    overlong.push((seg_start, i + 1));
                }
                expected.push(isolated(&shape, seg));
                seg_start = i + 1;
            }
        }
        if stream.len() - seg_start > N {
            fits = false;
        }
        if !c09 && !fits {
            return;
        }
        fitting.fetch_add(1, Ordering::Relaxed);
        let ncuts = 1u32 << (stream.len() - 1);
        with_shape(&shape, || {
            let mut results = vec![];
            let mut ofs = vec![];
            for cuts in 0..ncuts {
                results.clear();
                ofs.clear();
                let order = (si as u64) << 16 | cuts as u64;
                let case = || json!({"N": N, "target": tname, "stream": hex(stream), "cut_after_positions": (0..stream.len()-1).filter(|i| (cuts >> i) & 1 == 1).collect::<Vec<_>>()});
                let r = trap(|| run_loop::<N>(t, stream, cuts, &mut results, &mut ofs));
                match r {
                    Err(p) => ctx.violation("acc-trace-panic", format!("panic: {p}"), order, case()),
                    Ok(Err(e)) => ctx.violation(if e.contains("terminate") { "acc-trace-progress" } else { "acc-trace-bytes" }, e, order, case()),
                    Ok(Ok(iters)) => {
                        maxit.fetch_max(iters, Ordering::Relaxed);
                        if fits {
                            if results != expected {
                                ctx.violation(
                                    "acc-trace",
                                    format!("results {:?}, expected one per sentinel: {:?}", results, expected),
                                    order,
                                    case(),
                                );
                            }
                        } else {
                            // C09: every over-long segment yields OverFull no later than the call that consumes its sentinel
                            for (s, e) in &overlong {
                                if !ofs.iter().any(|p| *p > *s && *p <= *e) {
                                    ctx.violation(
                                        "acc-trace-overflow",
                                        format!("over-long segment [{s},{e}) passed without an OverFull report (reports at {:?})", ofs),
                                        order,
                                        case(),
                                    );
                                }
                            }
                            // frames that follow a zero byte and fit are delivered intact: the result
                            // reported for a fitting segment that directly follows a sentinel (or stream start)
                            // is its isolated decoding. Count of non-OverFull results for fitting segments:
                            let mut want_tail: Vec<ObsKind> = vec![];
                            let mut seg_start = 0;
                            for (i, b) in stream.iter().enumerate() {
                                if *b == 0 {
                                    if i + 1 - seg_start <= N {
                                        want_tail.push(isolated(&shape, &stream[seg_start..i]));
                                    }
                                    seg_start = i + 1;
                                }
                            }
                            // every fitting segment's isolated result must appear, in order, as a subsequence
                            let mut it = results.iter();
                            for w in &want_tail {
                                if !it.any(|r| r == w) {
                                    ctx.violation(
                                        "acc-trace-resync",
                                        format!("fitting frame result {:?} missing/out of order in {:?}", w, results),
                                        order,
                                        case(),
                                    );
                                    break;
                                }
                            }
                        }
                        nres.fetch_add(results.len() as u64, Ordering::Relaxed);
                    }
                }
            }
        });
        hist.fetch_add(ncuts as u64, Ordering::Relaxed);
    });
    TraceStats {
        histories: hist.load(Ordering::Relaxed),
        streams: streams.len() as u64,
        fitting_streams: fitting.load(Ordering::Relaxed),
        results: nres.load(Ordering::Relaxed),
        max_iters: maxit.load(Ordering::Relaxed),
    }
}

// ---------------------------------------------------------------------------------------------
// stateright cross-check: second, independent explorer over the same transition function
// ---------------------------------------------------------------------------------------------

mod sr {
    use super::*;
    use stateright::{Checker, Model, Property};

    pub struct AccModel<const N: usize> {
        pub target: Target,
        pub chunks: Vec<Vec<u8>>,
        /// false = C08's graph: transitions on which the step model reports an overflow are not taken
        pub c09: bool,
    }
    impl<const N: usize> Model for AccModel<N> {
        type State = u128;
        type Action = u32;
        fn init_states(&self) -> Vec<u128> {
            let a: CobsAccumulator<N> = CobsAccumulator::new();
            let (b, i) = a.verif_state();
            vec![key_of::<N>(b, i)]
        }
        fn actions(&self, _s: &u128, actions: &mut Vec<u32>) {
            actions.extend(0..self.chunks.len() as u32);
        }
        fn next_state(&self, s: &u128, a: u32) -> Option<u128> {
            let (buf, idx) = state_of::<N>(*s);
            if !self.c09 && idx <= N {
                if let (AccOut::OverFull(_), _) = acc_step(N, &buf[..idx], &self.chunks[a as usize]) {
                    return None;
                }
            }
            let mut acc = CobsAccumulator::<N>::verif_from_state(buf, idx);
            let shape = self.target.shape();
            with_shape(&shape, || {
                let _ = do_feed(&mut acc, &self.target, &self.chunks[a as usize]);
            });
            let (b, i) = acc.verif_state();
            Some(key_of::<N>(b, i))
        }
        fn properties(&self) -> Vec<Property<Self>> {
            vec![Property::always("idx within capacity", |_, s: &u128| state_of::<N>(*s).1 <= N)]
        }
    }
    pub fn unique_states<const N: usize>(target: &Target, chunks: &[Vec<u8>], c09: bool) -> (u64, bool) {
        let m = AccModel::<N> { target: target.clone(), chunks: chunks.to_vec(), c09 };
        let c = m.checker().threads(8).spawn_bfs().join();
        (c.unique_state_count() as u64, c.discoveries().is_empty())
    }
}

// ---------------------------------------------------------------------------------------------

/// N = 300 / 600 with frames whose payload has runs of 252..509 non-zero bytes, under a structured family
/// of chunkings (fixed chunk sizes, every single cut, cuts around the block boundaries)
fn big_capacity_traces(ctx: &Ctx, c09: bool) -> u64 {
    let mut frames: Vec<(Vec<u8>, ObsKind)> = vec![];
    for len in [0usize, 1, 251, 252, 253, 254, 255, 506, 507, 508] {
        for zero_at in [None, Some(len / 2)] {
            let mut body = vec![0x31u8; len];
            if let Some(z) = zero_at {
                if len > 2 {
                    body[z] = 0;
                }
            }
            let v = Val::Bytes(body);
            if let Some(plain) = crate::checks::c05::real_plain(&v) {
                let mut f = cobs_encode(&plain);
                f.push(0);
                let want = isolated(&Shape::Bytes, &f[..f.len() - 1]);
                frames.push((f, want));
            }
        }
    }
    // streams: garbage / short frame / long frame / empty frame / long frame
    let mut streams: Vec<(Vec<u8>, Vec<ObsKind>)> = vec![];
    for (i, (f, w)) in frames.iter().enumerate() {
        let (g, gw) = &frames[(i * 7 + 3) % frames.len()];
        let mut s = vec![0x05, 0x01, 0x00]; // ill-formed COBS segment first
        let mut exp = vec![ObsKind::DeserError];
        s.extend_from_slice(f);
        exp.push(w.clone());
        s.push(0x00); // empty frame: payload empty -> not a Bytes value
        exp.push(isolated(&Shape::Bytes, &[]));
        s.extend_from_slice(g);
        exp.push(gw.clone());
        streams.push((s, exp));
    }
    let hist = AtomicU64::new(0);
    let t = Target::Dyn(Shape::Bytes);
    let tb = Target::BorrowBytes;
    streams.par_iter().enumerate().for_each(|(si, (stream, expected))| {
        let n = stream.len();
        let mut cutsets: Vec<Vec<usize>> = vec![vec![]];
        for size in [1usize, 2, 3, 7, 32, 253, 254, 255, 256, 257] {
            cutsets.push((1..n).filter(|i| i % size == 0).collect());
        }
        for c in 1..n {
            if c < 6 || c + 6 > n || (c % 254) < 3 || (c % 254) > 251 || c % 16 == 0 {
                cutsets.push(vec![c]);
            }
        }
        for target in [&t, &tb] {
            macro_rules! go {
                ($cap:literal) => {{
                    for cuts in &cutsets {
                        hist.fetch_add(1, Ordering::Relaxed);
                        let r = trap(|| with_shape(&Shape::Bytes, || run_loop_cuts::<$cap>(target, stream, cuts)));
                        let case = || json!({"N": $cap, "target": target.name(), "stream_len": n, "stream_head": hex(&stream[..n.min(24)]), "cuts": if cuts.len() > 12 { json!(format!("{} cuts, first {:?}", cuts.len(), &cuts[..4])) } else { json!(cuts) }});
                        let order = (9u64 << 40) | (si as u64) << 20 | cuts.len() as u64;
                        match r {
                            Err(p) => ctx.violation("acc-trace-panic", format!("panic: {p}"), order, case()),
                            Ok(Err(e)) => ctx.violation("acc-trace-bytes", e, order, case()),
                            Ok(Ok(results)) => {
                                // every segment fits N here, so the result list is exactly one entry per sentinel
                                if &results != expected {
                                    let short = |v: &Vec<ObsKind>| v.iter().map(|k| match k { ObsKind::Success(_) => "Success", ObsKind::DeserError => "DeserError", ObsKind::OverFull => "OverFull", ObsKind::Consumed => "Consumed" }).collect::<Vec<_>>();
                                    ctx.violation(if c09 { "acc-trace-large-N-c09" } else { "acc-trace-large-N" }, format!("results {:?}, expected {:?} (one per sentinel, isolated decoding)", short(&results), short(expected)), order, case());
                                }
                            }
                        }
                    }
                }};
            }
            if n + 1 <= 600 {
                go!(600);
            }
            if stream.split(|b| *b == 0).all(|seg| seg.len() + 1 <= 300) {
                go!(300);
            }
        }
    });
    hist.load(Ordering::Relaxed)
}

fn run_loop_cuts<const N: usize>(t: &Target, stream: &[u8], cuts: &[usize]) -> Result<Vec<ObsKind>, String> {
    let mut acc: CobsAccumulator<N> = CobsAccumulator::new();
    let mut results = vec![];
    let mut bounds: Vec<usize> = cuts.to_vec();
    bounds.push(stream.len());
    let mut start = 0;
    let mut iters = 0u64;
    for b in bounds {
        if b <= start {
            continue;
        }
        let mut window = &stream[start..b];
        start = b;
        while !window.is_empty() {
            iters += 1;
            if iters > 2 * stream.len() as u64 + 2 {
                return Err("feed loop did not terminate".into());
            }
            let o = do_feed(&mut acc, t, window);
            if !o.rem_ok {
                return Err("remainder is not a suffix of the window".into());
            }
            match o.kind {
                ObsKind::Consumed => break,
                k => results.push(k),
            }
            window = &window[o.rem_off..];
        }
    }
    Ok(results)
}

fn targets() -> Vec<Target> {
    vec![
        Target::Dyn(Shape::Bool),
        Target::Dyn(Shape::U8),
        Target::Dyn(Shape::Tuple(vec![Shape::U8, Shape::U8])),
        Target::Dyn(Shape::Unit),
        Target::Dyn(Shape::Option(Box::new(Shape::U8))),
        Target::BorrowBytes,
        Target::BorrowStr,
    ]
}

macro_rules! for_caps {
    ($f:ident, $caps:expr, $($n:literal),*) => {
        for cap in $caps { match cap { $($n => $f!($n),)* _ => unreachable!() } }
    };
}

pub fn run(ctx: &Ctx, c09: bool) {
    let alpha_q: Vec<u8> = vec![0, 1, 2, 3];
    let alpha_t: Vec<u8> = vec![0, 1, 2, 3, 0xFF];
    let lc = if ctx.quick() { 4 } else { 5 };
    let alpha = if ctx.quick() { alpha_q.clone() } else { alpha_t.clone() };
    let mut chunks: Vec<Vec<u8>> = vec![];
    for l in 0..=lc {
        vmodel::for_each_string(&alpha, l, &mut |s| chunks.push(s.to_vec()));
    }
    let caps: Vec<usize> = if ctx.quick() { vec![1, 2, 3, 4, 5, 6] } else { vec![1, 2, 3, 4, 5, 6, 7] };
    let ls = if ctx.quick() { 7 } else { 9 };
    let mut total_states = 0u64;
    let mut total_trans = 0u64;
    let mut total_hist = 0u64;
    let mut parts = vec![];
    for t in targets() {
        macro_rules! one {
            ($n:literal) => {{
                let g = explore::<$n>(ctx, &t, &chunks, c09);
                let tr = traces::<$n>(ctx, &t, &alpha_q, ls, c09);
                total_states += g.states;
                total_trans += g.transitions;
                total_hist += tr.histories;
                ctx.class("Consumed", g.consumed);
                ctx.class("OverFull", g.overfull);
                ctx.class("DeserError", g.deser_error);
                ctx.class("Success", g.success);
                ctx.class("Success-from-stale-buffer-states", g.resync_from_stale_states);
                ctx.class("zero-progress-transitions(non-cyclic)", g.zero_progress);
                // vacuity: all four outcomes whenever some frame of T fits N
                if $n >= t.shape().min_width() + 2 && (g.consumed == 0 || (c09 && g.overfull == 0) || g.deser_error == 0 || g.success == 0) {
                    ctx.machinery(format!("vacuity guard: N={} {} outcomes {}/{}/{}/{}", $n, t.name(), g.consumed, g.overfull, g.deser_error, g.success));
                }
                let mut part = json!({"N": $n, "target": t.name(), "states": g.states, "transitions": g.transitions, "bfs_depth": g.depth,
                    "histories_replayed_on_fresh_accumulator": g.replayed_histories,
                    "trace_streams": tr.streams, "trace_streams_checked": tr.fitting_streams, "trace_histories": tr.histories, "trace_results": tr.results, "max_loop_iterations": tr.max_iters});
                if !ctx.quick() && $n <= 5 {
                    let (u, ok) = sr::unique_states::<$n>(&t, &chunks, c09);
                    part["stateright_unique_states"] = json!(u);
                    // on a tree that violates the property the own BFS stops at diverged transitions while the
                    // stateright model follows the real code: only compare when nothing has been reported
                    if (u != g.states || !ok) && ctx.violations_snapshot().is_empty() {
                        ctx.machinery(format!("explorer disagreement: own BFS {} states, stateright {} (N={}, {})", g.states, u, $n, t.name()));
                    }
                }
                parts.push(part);
            }};
        }
        for_caps!(one, caps.clone(), 1, 2, 3, 4, 5, 6, 7);
    }
    // large capacities: frames with full 0xFF blocks (>= 254 non-zero bytes) need N >= 257
    let big = big_capacity_traces(ctx, c09);
    total_hist += big;
    ctx.class("large-capacity-histories(N=300,600)", big);
    let mut ev = ctx.ev.lock().unwrap();
    ev.states = Some(total_states);
    ev.transitions = Some(total_trans);
    ev.traces_validated = Some(total_trans + total_hist);
    ev.evaluations = total_trans + total_hist;
    ev.distinct_nontrivial = total_trans + total_hist;
    for p in parts {
        ev.parts.push(p);
    }
    ev.bound("capacities", json!(caps));
    ev.bound("chunk_alphabet", json!(hex(&alpha)));
    ev.bound("chunk_len_max", json!(lc));
    ev.bound("chunks", json!(chunks.len()));
    ev.bound("trace_stream_len_max", json!(ls));
    ev.bound("trace_alphabet", json!(hex(&alpha_q)));
    ev.rule = "explicit-state BFS of the real CobsAccumulator: state = whole (buf[N], idx) read through the cfg hook, events = every chunk over the alphabet up to the length bound (incl. the empty chunk); every transition calls the real feed/feed_ref and is compared with the step model (variant, value, remainder pointer, buffered bytes, idx<=N, reset after sentinel, no zero-progress cycle); plus every stream up to the trace length x every one of its 2^(len-1) chunkings run through the documented re-feed loop against the isolated per-segment decoding. Each transition / history is a distinct case.".into();
    ev.sample(json!({"N": 4, "state": {"buf": "02 01 00 03", "idx": 1}, "chunk": "01 00 02", "expect": "Success(true), remaining=[02]"}));
    ev.sample(json!({"N": 3, "stream": "01 02 03 01 00 02 01 00", "chunking": "every one of 128", "expect": "OverFull .. then Success(true)"}));
    ev.assumptions = vec![
        "step refinement on every reachable state extends to unbounded streams over the alphabet by induction on the number of calls (DESIGN 4.C08)".into(),
        "'fits' means the zero-terminated segment including its sentinel is at most N bytes".into(),
        "byte alphabet {00,01,02,03}(+FF): the accumulator itself only distinguishes zero / non-zero; the other symbols serve the COBS and target-type decoders".into(),
    ];
}
