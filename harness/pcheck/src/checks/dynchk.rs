//! C17 dynamic codec agrees with the static codec and serde_json; C18 dynamic codec is total.

use crate::checks::c03::A_DEC;
use crate::rt::{count_allocs, hex, set_case, trap, Ctx};
use crate::schema_glue::{shape_of, to_owned};
use postcard_dyn::{from_slice_dyn, to_stdvec_dyn};
use rayon::prelude::*;
use serde_json::{json, Value};
use std::sync::atomic::{AtomicU64, Ordering};
use vmodel::glue::AsData;
use vmodel::schema::*;
use vmodel::shape::*;
use vmodel::spec::{spec_decode, varint};

// ---------------------------------------------------------------------------------------------
// C17
// ---------------------------------------------------------------------------------------------

/// schema of a shape, with the names AsData serialises (None when outside C17's quantifier)
fn schema_of(s: &Shape) -> Option<St> {
    fn list(l: &[Shape]) -> Option<Vec<St>> {
        l.iter().map(schema_of).collect()
    }
    fn fields(l: &[Shape]) -> Option<Vec<(String, St)>> {
        l.iter().enumerate().map(|(i, s)| schema_of(s).map(|t| (fname(i).to_string(), t))).collect()
    }
    Some(match s {
        Shape::Bool => St::Bool,
        Shape::I8 => St::I8,
        Shape::I16 => St::I16,
        Shape::I32 => St::I32,
        Shape::I64 => St::I64,
        Shape::I128 => St::I128,
        Shape::U8 => St::U8,
        Shape::U16 => St::U16,
        Shape::U32 => St::U32,
        Shape::U64 => St::U64,
        Shape::U128 => St::U128,
        Shape::F32 => St::F32,
        Shape::F64 => St::F64,
        Shape::Char => St::Char,
        Shape::Str => St::String,
        Shape::Bytes => St::ByteArray,
        Shape::Unit => St::Unit,
        Shape::UnitStruct => St::Struct("US".into(), Sd::Unit),
        Shape::Option(i) => St::Option(Box::new(schema_of(i)?)),
        Shape::NewtypeStruct(i) => St::Struct("NS".into(), Sd::Newtype(Box::new(schema_of(i)?))),
        Shape::Seq(i) => St::Seq(Box::new(schema_of(i)?)),
        Shape::Tuple(l) => St::Tuple(list(l)?),
        // serde convention: an unnamed-field struct with exactly one field is a newtype
        Shape::TupleStruct(l) if l.len() == 1 => return None,
        Shape::TupleStruct(l) => St::Struct("TS".into(), Sd::Tuple(list(l)?)),
        // only string-keyed maps are representable in JSON
        Shape::Map(k, v) if **k == Shape::Str => St::Map(Box::new(St::String), Box::new(schema_of(v)?)),
        Shape::Map(..) => return None,
        Shape::Struct(l) => St::Struct("S".into(), Sd::Struct(fields(l)?)),
        Shape::Enum(vs) => {
            let mut out = vec![];
            for (pos, (idx, v)) in vs.iter().enumerate() {
                if *idx as usize != pos {
                    return None;
                }
                let d = match v {
                    VShape::Unit => Sd::Unit,
                    VShape::Newtype(s) => Sd::Newtype(Box::new(schema_of(s)?)),
                    VShape::Tuple(l) if l.len() == 1 => return None,
                    VShape::Tuple(l) => Sd::Tuple(list(l)?),
                    VShape::Struct(l) => Sd::Struct(fields(l)?),
                };
                out.push((vname(pos).to_string(), d));
            }
            St::Enum("E".into(), out)
        }
    })
}

/// the property's value-level exclusions
fn in_scope(v: &Val) -> bool {
    fn json_null(v: &Val) -> bool {
        match v {
            Val::Unit | Val::UnitStruct | Val::None => true,
            Val::NewtypeStruct(x) => json_null(x),
            Val::F32(b) => !f32::from_bits(*b).is_finite(),
            Val::F64(b) => !f64::from_bits(*b).is_finite(),
            _ => false,
        }
    }
    match v {
        Val::F32(b) => f32::from_bits(*b).is_finite(),
        Val::F64(b) => f64::from_bits(*b).is_finite(),
        Val::I128(x) => i64::try_from(*x).is_ok(),
        Val::U128(x) => u64::try_from(*x).is_ok(),
        Val::Some(x) => !json_null(x) && in_scope(x),
        Val::NewtypeStruct(x) => in_scope(x),
        Val::Seq(l) | Val::Tuple(l) | Val::TupleStruct(l) | Val::Struct(l) => l.iter().all(in_scope),
        Val::Map(es) => {
            // unique keys in ascending order (the only order a JSON object retains)
            let keys: Vec<&Val> = es.iter().map(|e| &e.0).collect();
            keys.windows(2).all(|w| w[0] < w[1]) && es.iter().all(|(k, v)| in_scope(k) && in_scope(v))
        }
        Val::Variant { data, .. } => match data {
            VVal::Unit => true,
            VVal::Newtype(x) => in_scope(x),
            VVal::Tuple(l) | VVal::Struct(l) => l.iter().all(in_scope),
        },
        _ => true,
    }
}

/// Models how the dynamic codec is known to deviate from serde_json for PLAIN tuples / arrays
/// (used only to classify known findings precisely).
/// encode side (`dec == false`): an arity-1 tuple is expected as its bare element;
/// decode side (`dec == true`): an arity-1 tuple yields its bare element.
fn known_tuple_deviation(t: &St, j: &Value, dec: bool) -> Value {
    fn data(d: &Sd, j: &Value, dec: bool) -> Value {
        match d {
            Sd::Unit => j.clone(),
            Sd::Newtype(i) => known_tuple_deviation(i, j, dec),
            Sd::Tuple(l) => tuple(l, j, dec),
            Sd::Struct(l) => match j {
                Value::Object(m) => Value::Object(l.iter().filter_map(|(n, t)| m.get(n).map(|x| (n.clone(), known_tuple_deviation(t, x, dec)))).collect()),
                o => o.clone(),
            },
        }
    }
    fn tuple(l: &[St], j: &Value, dec: bool) -> Value {
        match (l.len(), j) {
            (1, Value::Array(a)) if a.len() == 1 => known_tuple_deviation(&l[0], &a[0], dec),
            (_, Value::Array(a)) if a.len() == l.len() => Value::Array(l.iter().zip(a).map(|(t, x)| known_tuple_deviation(t, x, dec)).collect()),
            (_, o) => o.clone(),
        }
    }
    match (t, j) {
        (St::Option(i), x) if !x.is_null() => known_tuple_deviation(i, x, dec),
        (St::Seq(i), Value::Array(a)) => Value::Array(a.iter().map(|x| known_tuple_deviation(i, x, dec)).collect()),
        (St::Tuple(l), x) => tuple(l, x, dec),
        (St::Map(_, v), Value::Object(m)) => Value::Object(m.iter().map(|(k, x)| (k.clone(), known_tuple_deviation(v, x, dec))).collect()),
        (St::Struct(_, d), x) => data(d, x, dec),
        (St::Enum(_, vs), Value::Object(m)) if m.len() == 1 => {
            let (k, x) = m.iter().next().unwrap();
            match vs.iter().find(|(n, _)| n == k) {
                Some((_, d)) => {
                    let mut o = serde_json::Map::new();
                    o.insert(k.clone(), data(d, x, dec));
                    Value::Object(o)
                }
                None => j.clone(),
            }
        }
        (_, o) => o.clone(),
    }
}

/// after unwrapping arity-1 plain tuples, does some Option directly hold a JSON null?
fn ambiguous_after_deviation(t: &St, j: &Value) -> bool {
    fn data(d: &Sd, j: &Value) -> bool {
        match (d, j) {
            (Sd::Newtype(i), x) => ambiguous_after_deviation(i, x),
            (Sd::Tuple(l), Value::Array(a)) if a.len() == l.len() => l.iter().zip(a).any(|(t, x)| ambiguous_after_deviation(t, x)),
            (Sd::Struct(l), Value::Object(m)) => l.iter().any(|(n, t)| m.get(n).map(|x| ambiguous_after_deviation(t, x)).unwrap_or(false)),
            _ => false,
        }
    }
    match (t, j) {
        (St::Option(i), x) if !x.is_null() => known_tuple_deviation(i, x, false).is_null() || ambiguous_after_deviation(i, x),
        (St::Seq(i), Value::Array(a)) => a.iter().any(|x| ambiguous_after_deviation(i, x)),
        (St::Tuple(l), Value::Array(a)) if a.len() == l.len() => l.iter().zip(a).any(|(t, x)| ambiguous_after_deviation(t, x)),
        (St::Map(_, v), Value::Object(m)) => m.values().any(|x| ambiguous_after_deviation(v, x)),
        (St::Struct(_, d), x) => data(d, x),
        (St::Enum(_, vs), Value::Object(m)) if m.len() == 1 => {
            let (k, x) = m.iter().next().unwrap();
            vs.iter().find(|(n, _)| n == k).map(|(_, d)| data(d, x)).unwrap_or(false)
        }
        _ => false,
    }
}

fn has_tuple_arity(t: &St, arity: usize) -> bool {
    let mut v = vec![];
    t.subtrees(&mut v);
    v.iter().any(|s| matches!(s, St::Tuple(l) if l.len() == arity))
        || v.iter().any(|s| match s {
            St::Struct(_, Sd::Tuple(l)) => l.len() == arity,
            St::Enum(_, vs) => vs.iter().any(|(_, d)| matches!(d, Sd::Tuple(l) if l.len() == arity)),
            _ => false,
        })
}

pub fn run_c17(ctx: &Ctx) {
    let k = 4;
    let en = ShapeEnum::new(k, 3);
    let shapes: Vec<(Shape, St)> = en.upto(k).into_iter().filter_map(|s| schema_of(&s).map(|t| (s, t))).collect();
    let dom = Domain { cap: if ctx.quick() { 512 } else { 1024 }, long: false };
    let n = AtomicU64::new(0);
    let skipped = AtomicU64::new(0);
    shapes.par_iter().enumerate().for_each(|(si, (s, t))| {
        let schema = to_owned(t);
        let level = if s.nodes() <= 2 { 0 } else { 1 };
        let vals = dom.values(s, level);
        let a1 = has_tuple_arity(t, 1);
        for (vi, v) in vals.iter().enumerate() {
            if !in_scope(v) {
                skipped.fetch_add(1, Ordering::Relaxed);
                continue;
            }
            let j = match serde_json::to_value(AsData(v)) {
                Ok(j) => j,
                Err(_) => {
                    skipped.fetch_add(1, Ordering::Relaxed);
                    continue;
                }
            };
            // "the bytes the static encoder yields"
            let bytes = match crate::checks::c05::real_plain(v) {
                Some(b) => b,
                None => continue,
            };
            n.fetch_add(1, Ordering::Relaxed);
            let order = (si as u64) << 20 | vi as u64;
            let case = || json!({"shape": s, "value": v, "json": j, "static_bytes": hex(&bytes)});
            // encode direction
            match trap(|| to_stdvec_dyn(&schema, &j)) {
                Err(p) => ctx.violation("dyn-encode-panic", format!("to_stdvec_dyn panicked: {p}"), order, case()),
                Ok(Ok(b)) if b == bytes => {}
                Ok(other) => {
                    // precise classification of the known arity-0/1 tuple deviation
                    let dev = known_tuple_deviation(t, &j, false);
                    // explained by the arity-1 deviation: the bare-element JSON encodes to the static bytes, or
                    // unwrapping the 1-tuple leaves a null directly inside an Option (ambiguous, outside the quantifier)
                    let explained = a1 && dev != j && (matches!(trap(|| to_stdvec_dyn(&schema, &dev)), Ok(Ok(b)) if b == bytes) || ambiguous_after_deviation(t, &j));
                    let class = if explained { "dyn-encode-plain-tuple-arity-1" } else { "dyn-encode-mismatch" };
                    ctx.violation(class, format!("to_stdvec_dyn gave {:?}, static encoder gives {}", other.map(|b| hex(&b)), hex(&bytes)), order, case())
                }
            }
            // decode direction
            match trap(|| from_slice_dyn(&schema, &bytes)) {
                Err(p) => {
                    let class = if t.contains_kind("Char") && p.contains("not yet implemented") { "dyn-decode-char-todo-panic" } else { "dyn-decode-panic" };
                    ctx.violation(class, format!("from_slice_dyn panicked: {p}"), order, case())
                }
                Ok(Ok(got)) if got == j => {}
                Ok(other) => {
                    let dev = known_tuple_deviation(t, &j, true);
                    let explained = a1 && dev != j && (matches!(&other, Ok(g) if *g == dev) || ambiguous_after_deviation(t, &j));
                    let class = if explained { "dyn-decode-plain-tuple-arity-1" } else { "dyn-decode-mismatch" };
                    ctx.violation(class, format!("from_slice_dyn gave {:?}, serde_json gives {}", other, j), order, case())
                }
            }
        }
    });
    let total = n.load(Ordering::Relaxed);
    ctx.add_evals(2 * total);
    ctx.add_nontrivial(2 * total);
    ctx.class("values-in-scope", total);
    ctx.class("values-excluded-by-the-property's-quantifier", skipped.load(Ordering::Relaxed));
    // derived typed corpus with the real #[derive(Schema)]
    crate::checks::dyn_typed::run(ctx);
    let mut ev = ctx.ev.lock().unwrap();
    ev.bound("shape_nodes_max", json!(k));
    ev.bound("shapes_in_scope", json!(shapes.len()));
    ev.rule = "every shape <= k nodes inside the property's quantifier (string-keyed maps, variant index = position, no 1-field unnamed struct/variant) x complete bounded value domain filtered exactly as the property says (integers within i64/u64, finite floats, ascending unique map keys, no Some(x) with JSON null); to_stdvec_dyn(schema_of(shape), serde_json::to_value(v)) must equal the static bytes and from_slice_dyn(schema, bytes) must equal serde_json::to_value(v); plus a derived typed corpus with #[derive(Schema)]".into();
    ev.sample(json!({"shape": shapes[shapes.len() / 2].0, "schema": shapes[shapes.len() / 2].1}));
    ev.assumptions = vec!["schema_of(shape) follows serde-derive's conventions; names are those the dynamic Val serialises".into()];
}

// ---------------------------------------------------------------------------------------------
// C18
// ---------------------------------------------------------------------------------------------

fn json_grammar(t: &St) -> Vec<Value> {
    // bounded JSON grammar J(2): scalars, arrays 0..2, objects 0..2 with keys from the schema's names
    let mut names: Vec<String> = vec!["zz".into()];
    let mut subs = vec![];
    t.subtrees(&mut subs);
    for s in subs {
        match s {
            St::Struct(_, Sd::Struct(l)) => names.extend(l.iter().map(|x| x.0.clone())),
            St::Enum(_, vs) => {
                for (n, d) in vs {
                    names.push(n.clone());
                    if let Sd::Struct(l) = d {
                        names.extend(l.iter().map(|x| x.0.clone()));
                    }
                }
            }
            _ => {}
        }
    }
    names.sort();
    names.dedup();
    let mut scalars: Vec<Value> = vec![
        Value::Null,
        json!(false),
        json!(true),
        json!(0),
        json!(1),
        json!(-1),
        json!(255),
        json!(256),
        json!(65536),
        json!(9223372036854775807u64),
        json!(9223372036854775808u64),
        json!(18446744073709551615u64),
        json!(-9223372036854775808i64),
        json!(1.5),
        json!(1e300),
        json!(""),
        json!("a"),
        json!("ab"),
        json!("é"),
    ];
    for n in &names {
        scalars.push(json!(n));
    }
    let small: Vec<Value> = vec![Value::Null, json!(true), json!(1), json!(-1), json!(300), json!(1.5), json!("a"), json!([]), json!([1]), json!({})]
        .into_iter()
        .chain(names.iter().map(|n| json!(n)))
        .collect();
    let mut out = scalars.clone();
    out.push(json!([]));
    out.push(json!({}));
    for a in &small {
        out.push(json!([a]));
        for b in &small {
            out.push(json!([a, b]));
        }
    }
    for k in &names {
        for a in &small {
            let mut m = serde_json::Map::new();
            m.insert(k.clone(), a.clone());
            out.push(Value::Object(m.clone()));
            // nested one level: {k: [a]} and {k: {k2: a}}
            let mut m2 = serde_json::Map::new();
            m2.insert(k.clone(), json!([a]));
            out.push(Value::Object(m2));
            // {k: [a, b]}: the payload of a tuple variant / a tuple-typed field with one element of the wrong type
            for b in [Value::Null, json!(true), json!(1), json!(-1), json!(300), json!("a"), json!([]), json!({})] {
                let mut m5 = serde_json::Map::new();
                m5.insert(k.clone(), json!([a, b]));
                out.push(Value::Object(m5));
            }
            for k2 in &names {
                if k2 != k {
                    let mut m3 = m.clone();
                    m3.insert(k2.clone(), a.clone());
                    out.push(Value::Object(m3));
                    let mut inner = serde_json::Map::new();
                    inner.insert(k2.clone(), a.clone());
                    let mut m4 = serde_json::Map::new();
                    m4.insert(k.clone(), Value::Object(inner));
                    out.push(Value::Object(m4));
                }
            }
        }
    }
    out
}

/// is the decode of `x` under `t` predicted to materialise more than `limit` zero-width elements?
fn dangerous(t: &St, x: &[u8]) -> bool {
    // the schema-of-schema kind has no serde shape; for PREDICTION it is replaced by a one-byte kind
    // (over-approximates: the dynamic decoder stops at such a node, the prediction reads on)
    fn lossy(t: &St) -> St {
        match t {
            St::Schema => St::U8,
            St::Option(i) => St::Option(Box::new(lossy(i))),
            St::Seq(i) => St::Seq(Box::new(lossy(i))),
            St::Tuple(l) => St::Tuple(l.iter().map(lossy).collect()),
            St::Map(k, v) => St::Map(Box::new(lossy(k)), Box::new(lossy(v))),
            St::Struct(n, d) => St::Struct(n.clone(), lossy_d(d)),
            St::Enum(n, vs) => St::Enum(n.clone(), vs.iter().map(|(a, d)| (a.clone(), lossy_d(d))).collect()),
            o => o.clone(),
        }
    }
    fn lossy_d(d: &Sd) -> Sd {
        match d {
            Sd::Unit => Sd::Unit,
            Sd::Newtype(i) => Sd::Newtype(Box::new(lossy(i))),
            Sd::Tuple(l) => Sd::Tuple(l.iter().map(lossy).collect()),
            Sd::Struct(l) => Sd::Struct(l.iter().map(|(n, t)| (n.clone(), lossy(t))).collect()),
        }
    }
    match shape_of(&lossy(t)) {
        Some(sh) => {
            let sd = spec_decode(&sh, x);
            sd.budget_exceeded || sd.max_zero_width_claim > 4096
        }
        None => false,
    }
}

fn claimed_zero_width(t: &St, x: &[u8]) -> u64 {
    fn lossy(t: &St) -> St {
        match t {
            St::Schema => St::U8,
            St::Option(i) => St::Option(Box::new(lossy(i))),
            St::Seq(i) => St::Seq(Box::new(lossy(i))),
            St::Tuple(l) => St::Tuple(l.iter().map(lossy).collect()),
            St::Map(k, v) => St::Map(Box::new(lossy(k)), Box::new(lossy(v))),
            St::Struct(n, d) => St::Struct(n.clone(), lossy_d(d)),
            St::Enum(n, vs) => St::Enum(n.clone(), vs.iter().map(|(a, d)| (a.clone(), lossy_d(d))).collect()),
            o => o.clone(),
        }
    }
    fn lossy_d(d: &Sd) -> Sd {
        match d {
            Sd::Unit => Sd::Unit,
            Sd::Newtype(i) => Sd::Newtype(Box::new(lossy(i))),
            Sd::Tuple(l) => Sd::Tuple(l.iter().map(lossy).collect()),
            Sd::Struct(l) => Sd::Struct(l.iter().map(|(n, t)| (n.clone(), lossy(t))).collect()),
        }
    }
    shape_of(&lossy(t)).map(|sh| spec_decode(&sh, x).total_zero_width_claim as u64).unwrap_or(0)
}

fn c18_bytes_case(ctx: &Ctx, t: &St, schema: &postcard_schema::schema::owned::OwnedDataModelType, schema_json: &str, x: &[u8], order: u64, st: &mut [u64; 3]) {
    if dangerous(t, x) {
        st[2] += 1;
        return;
    }
    st[0] += 1;
    let mut cs = Vec::with_capacity(96 + schema_json.len());
    cs.extend_from_slice(b"{\"schema\":");
    cs.extend_from_slice(schema_json.as_bytes());
    cs.extend_from_slice(b",\"input\":\"");
    cs.extend_from_slice(hex(x).as_bytes());
    cs.extend_from_slice(b"\"}");
    set_case(&cs);
    let (r, stats) = count_allocs(256 << 20, || trap(|| from_slice_dyn(schema, x)));
    let case = || json!({"schema": t, "input": hex(x)});
    match r {
        Err(p) => {
            let class = if p.contains("not yet implemented") && t.contains_kind("Char") && !t.contains_kind("Schema") {
                "dyn-decode-char-todo-panic"
            } else if p.contains("not yet implemented") && t.contains_kind("Schema") {
                "dyn-decode-schema-todo-panic"
            } else {
                "dyn-decode-panic"
            };
            ctx.violation(class, format!("from_slice_dyn panicked: {p}"), order, case());
        }
        Ok(res) => {
            if res.is_ok() {
                st[1] += 1;
            }
            // a constant multiple of the input length, plus a per-schema constant (field names and
            // one JSON node per schema node are allocated even for an empty input)
            let bound = 512 * (x.len() as u64 + 1) + 512 * t.nodes() as u64;
            if stats.requested > bound {
                // precise class for the known finding: a sequence of zero-width elements allocates one
                // JSON node per CLAIMED element although the elements occupy no input bytes
                let claimed = claimed_zero_width(t, x);
                let class = if claimed > 0 && stats.requested <= bound + 512 * claimed * t.nodes() as u64 { "dyn-decode-alloc-proportional-to-claimed-zero-width-count" } else { "dyn-decode-alloc-bound" };
                ctx.violation(class, format!("{} bytes requested for a {}-byte input (bound {}; claimed zero-width elements: {})", stats.requested, x.len(), bound, claimed), order, case());
            }
        }
    }
}

fn c18_json_case(ctx: &Ctx, t: &St, schema: &postcard_schema::schema::owned::OwnedDataModelType, j: &Value, order: u64, st: &mut [u64; 3]) {
    st[0] += 1;
    let case = || json!({"schema": t, "json": j});
    match trap(|| to_stdvec_dyn(schema, j)) {
        Err(p) => {
            let class = if p.contains("not yet implemented") && t.contains_kind("Schema") { "dyn-encode-schema-todo-panic" } else { "dyn-encode-panic" };
            ctx.violation(class, format!("to_stdvec_dyn panicked: {p}"), order, case());
        }
        Ok(Err(_)) => {}
        Ok(Ok(b)) => {
            st[1] += 1;
            if dangerous(t, &b) {
                st[2] += 1;
                return;
            }
            // whatever the encoder accepts must decode and re-encode to the same bytes
            match trap(|| from_slice_dyn(schema, &b)) {
                Err(p) => {
                    let class = if p.contains("not yet implemented") && t.contains_kind("Char") { "dyn-decode-char-todo-panic" } else { "dyn-decode-panic" };
                    ctx.violation(class, format!("decoding the encoder's own output panicked: {p}"), order, json!({"schema": t, "json": j, "bytes": hex(&b)}))
                }
                Ok(Err(e)) => ctx.violation(&fixpoint_class(t, j, "decode-fails"), format!("encoder accepted {} -> {}, but decoding that fails with {:?}", j, hex(&b), e), order, json!({"schema": t, "json": j, "bytes": hex(&b)})),
                Ok(Ok(j2)) => match trap(|| to_stdvec_dyn(schema, &j2)) {
                    Ok(Ok(b2)) if b2 == b => {}
                    other => ctx.violation(
                        &fixpoint_class(t, j, "reencode-differs"),
                        format!("{} -> {} -> {} -> {:?}", j, hex(&b), j2, other.map(|r| r.map(|x| hex(&x)))),
                        order,
                        json!({"schema": t, "json": j, "bytes": hex(&b), "decoded": j2}),
                    ),
                },
            }
        }
    }
}

/// classes for the re-encode fixpoint, keyed on the schema feature that explains the failure
fn fixpoint_class(t: &St, j: &Value, what: &str) -> String {
    let _ = j;
    let mut feats = vec![];
    if has_tuple_arity(t, 0) {
        feats.push("tuple0");
    }
    if has_tuple_arity(t, 1) {
        feats.push("tuple1");
    }
    if t.contains_kind("Unit") || struct_unit(t) {
        feats.push("unit");
    }
    if t.contains_kind("F32") {
        feats.push("f32");
    }
    if t.contains_kind("Char") {
        feats.push("char");
    }
    if t.contains_kind("Option") {
        feats.push("option");
    }
    format!("dyn-fixpoint-{}[{}]", what, feats.join(","))
}
fn struct_unit(t: &St) -> bool {
    let mut v = vec![];
    t.subtrees(&mut v);
    v.iter().any(|s| matches!(s, St::Struct(_, Sd::Unit)))
}

pub fn run_c18(ctx: &Ctx) {
    let k = if ctx.quick() { 3 } else { 4 };
    let en = SchemaEnum::new(k, 3);
    let trees = en.upto(k);
    let strlen = 4;
    let mut strings: Vec<Vec<u8>> = vec![];
    for l in 0..=strlen {
        vmodel::for_each_string(&A_DEC, l, &mut |s| strings.push(s.to_vec()));
    }
    // adversarial length prefixes followed by a little payload
    for adv in [1u128 << 7, 1 << 14, 1 << 21, (1 << 32) - 1, 1 << 32, 1 << 62, (1 << 63) - 1, 1 << 63, u64::MAX as u128] {
        for tail in [&[][..], &[0x00][..], &[0x01, 0x01][..], &[0x61, 0x62, 0x63][..]] {
            let mut x = varint(adv);
            x.extend_from_slice(tail);
            strings.push(x.clone());
            let mut y = vec![0x01];
            y.extend_from_slice(&x);
            strings.push(y);
        }
    }
    let tot = [AtomicU64::new(0), AtomicU64::new(0), AtomicU64::new(0)];
    let jtot = [AtomicU64::new(0), AtomicU64::new(0), AtomicU64::new(0)];
    trees.par_iter().enumerate().for_each(|(ti, t)| {
        let schema = to_owned(t);
        let schema_json = serde_json::to_string(t).unwrap();
        let mut st = [0u64; 3];
        for (xi, x) in strings.iter().enumerate() {
            c18_bytes_case(ctx, t, &schema, &schema_json, x, (ti as u64) << 24 | xi as u64, &mut st);
        }
        for i in 0..3 {
            tot[i].fetch_add(st[i], Ordering::Relaxed);
        }
        let mut st = [0u64; 3];
        if t.nodes() <= 3 {
            for (ji, j) in json_grammar(t).iter().enumerate() {
                c18_json_case(ctx, t, &schema, j, (1u64 << 50) | (ti as u64) << 24 | ji as u64, &mut st);
            }
        }
        for i in 0..3 {
            jtot[i].fetch_add(st[i], Ordering::Relaxed);
        }
    });
    // JSON side on 4-node trees rooted at an enum / struct / tuple (near-miss arities and field sets need them)
    let en4 = SchemaEnum::new(4, 3);
    let comp4: Vec<&St> = en4.exact(4).iter().filter(|t| matches!(t, St::Enum(..) | St::Struct(..) | St::Tuple(..))).collect();
    comp4.par_iter().enumerate().for_each(|(ti, t)| {
        let schema = to_owned(t);
        let mut st = [0u64; 3];
        for (ji, j) in json_grammar(t).iter().enumerate() {
            if j.is_array() || j.is_object() || j.is_string() {
                c18_json_case(ctx, t, &schema, j, (2u64 << 50) | (ti as u64) << 24 | ji as u64, &mut st);
            }
        }
        for i in 0..3 {
            jtot[i].fetch_add(st[i], Ordering::Relaxed);
        }
    });
    ctx.ev.lock().unwrap().bound("json_side_4_node_composite_trees", json!(comp4.len()));
    // predicted-dangerous inputs (a claimed count of zero-width elements beyond 4096) are executed
    // in isolated subprocesses: a handful of representatives
    let reps: Vec<(St, Vec<u8>)> = vec![
        (St::Seq(Box::new(St::Unit)), varint(1 << 40)),
        (St::Seq(Box::new(St::Tuple(vec![]))), varint(u64::MAX as u128)),
        (St::Seq(Box::new(St::Struct("S".into(), Sd::Unit))), varint(1 << 32)),
        (St::Option(Box::new(St::Seq(Box::new(St::Unit)))), [vec![1], varint(1 << 50)].concat()),
    ];
    for (i, (t, x)) in reps.iter().enumerate() {
        let out = std::process::Command::new(std::env::current_exe().unwrap())
            .args(["worker", "c18-decode", &serde_json::to_string(t).unwrap(), &hex(x).replace(' ', "")])
            .output();
        tot[0].fetch_add(1, Ordering::Relaxed);
        match out {
            Ok(o) => {
                let code = o.status.code();
                if code != Some(0) {
                    ctx.violation(
                        "dyn-decode-unbounded-alloc-zero-width-seq",
                        format!("decoding a {}-byte input in an isolated process ended with status {:?} (allocation cap / time limit): memory is proportional to the claimed element count, not to the input", x.len(), code),
                        i as u64,
                        json!({"schema": t, "input": hex(x)}),
                    );
                }
            }
            Err(e) => ctx.machinery(format!("cannot spawn worker: {e}")),
        }
    }
    let n = tot[0].load(Ordering::Relaxed) + jtot[0].load(Ordering::Relaxed);
    ctx.add_evals(n);
    ctx.add_nontrivial(n);
    ctx.class("byte-inputs-decoded", tot[0].load(Ordering::Relaxed));
    ctx.class("byte-inputs-accepted", tot[1].load(Ordering::Relaxed));
    ctx.class("byte-inputs-predicted-dangerous(not run in-process)", tot[2].load(Ordering::Relaxed));
    ctx.class("json-inputs", jtot[0].load(Ordering::Relaxed));
    ctx.class("json-inputs-accepted", jtot[1].load(Ordering::Relaxed));
    ctx.require_class("byte-inputs-accepted");
    ctx.require_class("json-inputs-accepted");
    let mut ev = ctx.ev.lock().unwrap();
    ev.bound("tree_nodes_max", json!(k));
    ev.bound("trees", json!(trees.len()));
    ev.bound("byte_strings_per_tree", json!(strings.len()));
    ev.bound("alphabet", json!(hex(&A_DEC)));
    ev.rule = "every schema tree <= k nodes (every node kind, incl. Char, Usize/Isize, 128-bit, nested options, non-string-keyed maps, Schema) x every byte string over the decoder alphabet up to the length bound + adversarial length prefixes, under a panic trap and a counting allocator (bound 512*(len+1), hard cap 256 MiB); x a bounded JSON grammar (scalars, arrays 0..2, objects 0..2 keyed by the schema's own names and an unrelated name, nested once): no panic, and whatever to_stdvec_dyn accepts must decode and re-encode to the same bytes; inputs predicted to claim > 4096 zero-width elements run as representatives in isolated subprocesses".into();
    ev.sample(json!({"schema": trees[trees.len() / 2], "input": hex(&strings[strings.len() / 2])}));
    ev.assumptions = vec!["bounded JSON grammar".into(), "allocation constant 512 bytes per input byte (serde_json::Value nodes are 32 bytes; vector doubling; map nodes)".into()];
}

/// worker: decode one input under one schema with an allocation cap and a time limit
pub fn worker_decode(args: &[String]) -> i32 {
    let t: St = match serde_json::from_str(&args[0]) {
        Ok(t) => t,
        Err(_) => return 2,
    };
    let x: Vec<u8> = (0..args[1].len() / 2).map(|i| u8::from_str_radix(&args[1][2 * i..2 * i + 2], 16).unwrap()).collect();
    let schema = to_owned(&t);
    // time limit
    std::thread::spawn(|| {
        std::thread::sleep(std::time::Duration::from_secs(10));
        unsafe { libc::_exit(4) };
    });
    crate::rt::set_property("C18w");
    let (_r, stats) = count_allocs(u64::MAX, || {
        // cap handled manually: poll via a watchdog on requested bytes is not possible here, so use rlimit
        unsafe {
            let lim = libc::rlimit { rlim_cur: 1 << 30, rlim_max: 1 << 30 };
            libc::setrlimit(libc::RLIMIT_AS, &lim);
        }
        trap(|| from_slice_dyn(&schema, &x).is_ok())
    });
    if stats.requested > 512 * (x.len() as u64 + 1) {
        return 3;
    }
    0
}
