//! C14: a type's Schema describes exactly what its Serialize writes (typed corpus).

use crate::corpus::Dom;
use crate::record::{record_tree, Rec};
use crate::rt::{hex, trap, Ctx};
use crate::schema_glue::{from_static, shape_of};
use postcard_schema::key::Key;
use postcard_schema::schema::owned::OwnedDataModelType;
use postcard_schema::schema::{Data, DataModelType, NamedField};
use postcard_schema::Schema;
use serde::Serialize;
use serde_json::json;
use std::collections::{BTreeMap, BTreeSet, HashMap, HashSet};
use std::num::*;
use std::ops::{Range, RangeFrom, RangeInclusive, RangeTo};

// ---- conformance of a recorded call tree to a schema ----

fn flatten_rec<'a>(r: &'a Rec, out: &mut Vec<&'a Rec>) {
    match r {
        Rec::Tuple(_, l) => l.iter().for_each(|x| flatten_rec(x, out)),
        other => out.push(other),
    }
}
fn flatten_schema(s: &'static DataModelType, out: &mut Vec<&'static DataModelType>) {
    match s {
        DataModelType::Tuple(l) => l.iter().for_each(|x| flatten_schema(x, out)),
        other => out.push(other),
    }
}

fn conf_list(recs: &[Rec], schemas: &[&'static DataModelType], path: &str) -> Result<(), String> {
    if recs.len() != schemas.len() {
        return Err(format!("{path}: arity {} serialised, schema says {}", recs.len(), schemas.len()));
    }
    for (i, (r, s)) in recs.iter().zip(schemas.iter()).enumerate() {
        conforms(r, s, &format!("{path}.{i}"))?;
    }
    Ok(())
}
fn conf_fields(recs: &[(&'static str, Rec)], fields: &[&'static NamedField], path: &str) -> Result<(), String> {
    if recs.len() != fields.len() {
        return Err(format!("{path}: {} fields serialised, schema says {}", recs.len(), fields.len()));
    }
    for ((n, r), f) in recs.iter().zip(fields.iter()) {
        if *n != f.name {
            return Err(format!("{path}: field {:?} serialised where the schema has {:?}", n, f.name));
        }
        conforms(r, f.ty, &format!("{path}.{n}"))?;
    }
    Ok(())
}

pub fn conforms(r: &Rec, s: &'static DataModelType, path: &str) -> Result<(), String> {
    use DataModelType as D;
    let bad = || Err(format!("{path}: serialised as {}, schema says {:?}", rec_kind(r), s));
    match (s, r) {
        (D::Bool, Rec::Bool(_))
        | (D::I8, Rec::I8(_))
        | (D::U8, Rec::U8(_))
        | (D::I16, Rec::I16(_))
        | (D::I32, Rec::I32(_))
        | (D::I64, Rec::I64(_))
        | (D::I128, Rec::I128(_))
        | (D::U16, Rec::U16(_))
        | (D::U32, Rec::U32(_))
        | (D::U64, Rec::U64(_))
        | (D::U128, Rec::U128(_))
        | (D::Usize, Rec::U64(_))
        | (D::Isize, Rec::I64(_))
        | (D::F32, Rec::F32(_))
        | (D::F64, Rec::F64(_))
        | (D::Char, Rec::Char(_))
        | (D::String, Rec::Str(_))
        | (D::ByteArray, Rec::Bytes(_))
        | (D::Unit, Rec::Unit)
        | (D::Option(_), Rec::None) => Ok(()),
        // byte array and seq<u8> are the same items on the wire (count + raw bytes)
        (D::ByteArray, Rec::Seq(Some(_), l)) if l.iter().all(|x| matches!(x, Rec::U8(_))) => Ok(()),
        (D::Seq(D::U8), Rec::Bytes(_)) => Ok(()),
        (D::Option(t), Rec::Some(x)) => conforms(x, t, path),
        (D::Seq(t), Rec::Seq(Some(_), l)) => {
            for (i, x) in l.iter().enumerate() {
                conforms(x, t, &format!("{path}[{i}]"))?;
            }
            Ok(())
        }
        (D::Tuple(_), Rec::Tuple(..)) => {
            // tuple nesting carries no bytes: compare the flattened item sequences
            let mut fr = vec![];
            flatten_rec(r, &mut fr);
            let mut fs = vec![];
            flatten_schema(s, &mut fs);
            if fr.len() != fs.len() {
                return Err(format!("{path}: tuple of {} items serialised, schema says {}", fr.len(), fs.len()));
            }
            for (i, (x, t)) in fr.iter().zip(fs.iter()).enumerate() {
                conforms(x, t, &format!("{path}.{i}"))?;
            }
            Ok(())
        }
        (D::Map { key, val }, Rec::Map(Some(_), l)) => {
            for (k, v) in l {
                conforms(k, key, &format!("{path}<key>"))?;
                conforms(v, val, &format!("{path}<val>"))?;
            }
            Ok(())
        }
        (D::Struct { data, .. }, _) => match (data, r) {
            (Data::Unit, Rec::UnitStruct(_)) => Ok(()),
            (Data::Newtype(t), Rec::NewtypeStruct(_, x)) => conforms(x, t, path),
            (Data::Tuple(ts), Rec::TupleStruct(_, _, l)) => conf_list(l, ts, path),
            (Data::Struct(fs), Rec::Struct(_, _, l)) => conf_fields(l, fs, path),
            _ => bad(),
        },
        (D::Enum { variants, .. }, _) => {
            let (idx, vname) = match r {
                Rec::UnitVariant { idx, variant, .. } | Rec::NewtypeVariant { idx, variant, .. } | Rec::TupleVariant { idx, variant, .. } | Rec::StructVariant { idx, variant, .. } => (*idx, *variant),
                _ => return bad(),
            };
            let v = match variants.get(idx as usize) {
                Some(v) => v,
                None => return Err(format!("{path}: variant index {idx} serialised, schema has {} variants", variants.len())),
            };
            if v.name != vname {
                return Err(format!("{path}: variant {idx} serialised as {:?}, schema names it {:?}", vname, v.name));
            }
            let p = format!("{path}::{vname}");
            match (&v.data, r) {
                (Data::Unit, Rec::UnitVariant { .. }) => Ok(()),
                (Data::Newtype(t), Rec::NewtypeVariant { inner, .. }) => conforms(inner, t, &p),
                (Data::Tuple(ts), Rec::TupleVariant { fields, .. }) => conf_list(fields, ts, &p),
                (Data::Struct(fs), Rec::StructVariant { fields, .. }) => conf_fields(fields, fs, &p),
                _ => Err(format!("{p}: serialised as {}, schema says {:?}", rec_kind(r), v.data)),
            }
        }
        // schema-of-schema: the value is one of the schema enums
        (D::Schema, Rec::UnitVariant { name, .. } | Rec::NewtypeVariant { name, .. } | Rec::StructVariant { name, .. } | Rec::TupleVariant { name, .. })
            if *name == "DataModelType" || *name == "OwnedDataModelType" =>
        {
            // what a host parses a schema with is the OWNED schema type: every enum variant in the value must
            // carry the index that type (and OwnedData) gives to the variant of the same name
            schema_value_indices(r, path)
        }
        _ => bad(),
    }
}

fn rec_kind(r: &Rec) -> String {
    let s = format!("{:?}", r);
    s.chars().take(60).collect()
}

fn schema_value_indices(r: &Rec, path: &str) -> Result<(), String> {
    let chk = |name: &str, idx: u32, variant: &'static str| -> Result<(), String> {
        let family = match name {
            "DataModelType" | "OwnedDataModelType" => "type",
            "Data" | "OwnedData" => "data",
            _ => return Ok(()),
        };
        match schema_variant_table().get(&(family, variant)) {
            Some(i) if *i == idx => Ok(()),
            other => Err(format!("{path}: schema value contains {name}::{variant} serialised with index {idx}; the owned schema types have {:?} for that name", other)),
        }
    };
    match r {
        Rec::UnitVariant { name, idx, variant } => chk(name, *idx, variant),
        Rec::NewtypeVariant { name, idx, variant, inner } => {
            chk(name, *idx, variant)?;
            schema_value_indices(inner, path)
        }
        Rec::TupleVariant { name, idx, variant, fields, .. } => {
            chk(name, *idx, variant)?;
            fields.iter().try_for_each(|f| schema_value_indices(f, path))
        }
        Rec::StructVariant { name, idx, variant, fields, .. } => {
            chk(name, *idx, variant)?;
            fields.iter().try_for_each(|(_, f)| schema_value_indices(f, path))
        }
        Rec::Some(x) | Rec::NewtypeStruct(_, x) => schema_value_indices(x, path),
        Rec::Seq(_, l) | Rec::Tuple(_, l) | Rec::TupleStruct(_, _, l) => l.iter().try_for_each(|f| schema_value_indices(f, path)),
        Rec::Struct(_, _, l) => l.iter().try_for_each(|(_, f)| schema_value_indices(f, path)),
        Rec::Map(_, l) => l.iter().try_for_each(|(k, v)| schema_value_indices(k, path).and_then(|_| schema_value_indices(v, path))),
        _ => Ok(()),
    }
}

/// (family, variant name) -> variant index of `OwnedDataModelType` / `OwnedData`, read off their own Serialize impls
fn schema_variant_table() -> &'static BTreeMap<(&'static str, &'static str), u32> {
    static T: std::sync::OnceLock<BTreeMap<(&'static str, &'static str), u32>> = std::sync::OnceLock::new();
    T.get_or_init(|| {
        use vmodel::schema::{Sd, St, PRIM_KINDS};
        let mut samples: Vec<St> = PRIM_KINDS.to_vec();
        let b = || Box::new(St::U8);
        samples.extend([
            St::Option(b()),
            St::Seq(b()),
            St::Tuple(vec![St::U8]),
            St::Map(b(), b()),
            St::Struct("S".into(), Sd::Unit),
            St::Struct("S".into(), Sd::Newtype(b())),
            St::Struct("S".into(), Sd::Tuple(vec![St::U8, St::U8])),
            St::Struct("S".into(), Sd::Struct(vec![("f".into(), St::U8)])),
            St::Enum("E".into(), vec![]),
            St::Schema,
        ]);
        fn walk(r: &Rec, m: &mut BTreeMap<(&'static str, &'static str), u32>) {
            let mut put = |name: &str, idx: u32, variant: &'static str| match name {
                "OwnedDataModelType" => {
                    m.insert(("type", variant), idx);
                }
                "OwnedData" => {
                    m.insert(("data", variant), idx);
                }
                _ => {}
            };
            match r {
                Rec::UnitVariant { name, idx, variant } => put(name, *idx, variant),
                Rec::NewtypeVariant { name, idx, variant, inner } => {
                    put(name, *idx, variant);
                    walk(inner, m)
                }
                Rec::TupleVariant { name, idx, variant, fields, .. } => {
                    put(name, *idx, variant);
                    fields.iter().for_each(|f| walk(f, m))
                }
                Rec::StructVariant { name, idx, variant, fields, .. } => {
                    put(name, *idx, variant);
                    fields.iter().for_each(|(_, f)| walk(f, m))
                }
                Rec::Some(x) | Rec::NewtypeStruct(_, x) => walk(x, m),
                Rec::Seq(_, l) | Rec::Tuple(_, l) | Rec::TupleStruct(_, _, l) => l.iter().for_each(|f| walk(f, m)),
                Rec::Struct(_, _, l) => l.iter().for_each(|(_, f)| walk(f, m)),
                _ => {}
            }
        }
        let mut m = BTreeMap::new();
        for t in samples {
            if let Ok(r) = record_tree(&crate::schema_glue::to_owned(&t)) {
                walk(&r, &mut m);
            }
        }
        m
    })
}

// ---- corpus ----

macro_rules! derived {
    ($(#[$m:meta])* struct $name:ident $(<$g:ident>)? { $($f:ident : $t:ty),* }) => {
        #[derive(Serialize, Schema, Clone, Debug)]
        pub struct $name $(<$g>)? { $(pub $f: $t),* }
        impl $(<$g: Dom + Clone>)? Dom for $name $(<$g>)? {
            fn dom() -> Vec<Self> {
                let mut acc = vec![];
                derived!(@prod acc; $name; (); $($f : $t),*);
                acc
            }
            fn biteq(&self, _o: &Self) -> bool { true }
        }
    };
    (@prod $acc:ident; $name:ident; ($($done:ident)*); $h:ident : $ht:ty $(, $f:ident : $t:ty)*) => {
        for $h in <$ht as Dom>::small() { derived!(@prod $acc; $name; ($($done)* $h); $($f : $t),*); }
    };
    (@prod $acc:ident; $name:ident; ($($done:ident)*); ) => { $acc.push($name { $($done: $done.clone()),* }); };
}

#[derive(Serialize, Schema, Clone, Debug)]
pub struct SUnit;
#[derive(Serialize, Schema, Clone, Debug)]
pub struct SNew(pub i16);
#[derive(Serialize, Schema, Clone, Debug)]
pub struct STup(pub u8, pub i64, pub String);
#[derive(Serialize, Schema, Clone, Debug)]
pub struct STup0();
#[derive(Serialize, Schema, Clone, Debug)]
pub struct SNamed0 {}
derived! { struct SNamed { z: u32, b: bool, c: Option<i64>, a: String, e: (u8, i16) } }
derived! { struct SGen<T> { t: T, n: u16, v: Vec<T> } }
derived! { struct SNest { inner: SNamed, g: SGen<i128>, arr: [u16; 3] } }
#[derive(Serialize, Schema, Clone, Debug)]
pub struct SLife<'a> {
    pub s: &'a str,
    pub b: &'a [u8],
    pub n: &'a u32,
}
#[derive(Serialize, Schema, Clone, Debug)]
pub enum SEnum {
    A,
    B(i16),
    C(u8, i32),
    D { x: u64, y: Option<bool> },
    E(),
    F {},
    G(SNew),
    H(Vec<u16>),
    I { only: u16 },
    J { zeta: u8, alpha: bool },
}
/// explicit discriminants that are not ascending in declaration order: serde's variant index is the
/// declaration position, whatever the discriminant says
#[derive(Serialize, Schema, Clone, Debug)]
pub enum EDisc {
    Reset = 0x10,
    Read = 1,
    Write = 2,
    Last = -3,
}
#[derive(Serialize, Schema, Clone, Debug)]
#[repr(u8)]
pub enum EDiscPayload {
    Data(u8) = 9,
    Idle = 1,
    Named { x: u16 } = 4,
    Pair(u8, bool) = 0,
}
/// raw identifiers: serde names the items `type`, `match`, `loop` (without the `r#` marker)
#[derive(Serialize, Schema, Clone, Debug)]
pub struct SRaw {
    pub r#type: u8,
    pub plain: bool,
    pub r#match: i16,
}
#[derive(Serialize, Schema, Clone, Debug)]
#[allow(non_camel_case_types)]
pub enum ERaw {
    r#loop,
    r#fn(u8),
    Plain { r#ref: u16 },
}
#[derive(Serialize, Schema, Clone, Debug)]
pub enum SOuter {
    Leaf(SEnum),
    Pair(SEnum, SNew),
    Rec { e: SEnum, list: Vec<SEnum>, m: BTreeMap<String, SEnum> },
}

macro_rules! big_schema_enum {
    ($name:ident; $last:ident; $($v:ident)*) => {
        /// 130 variants: unit variants at every index, the last one carries a payload
        #[derive(Serialize, Schema, Clone, Debug)]
        pub enum $name { $($v,)* $last(u8) }
        impl $name {
            pub fn all() -> Vec<Self> { vec![$($name::$v,)* $name::$last(0), $name::$last(200)] }
        }
    };
}
big_schema_enum!(SBig; W129;
 V0 V1 V2 V3 V4 V5 V6 V7 V8 V9 V10 V11 V12 V13 V14 V15 V16 V17 V18 V19 V20 V21 V22 V23 V24 V25 V26 V27 V28 V29 V30 V31
 V32 V33 V34 V35 V36 V37 V38 V39 V40 V41 V42 V43 V44 V45 V46 V47 V48 V49 V50 V51 V52 V53 V54 V55 V56 V57 V58 V59 V60 V61 V62 V63
 V64 V65 V66 V67 V68 V69 V70 V71 V72 V73 V74 V75 V76 V77 V78 V79 V80 V81 V82 V83 V84 V85 V86 V87 V88 V89 V90 V91 V92 V93 V94 V95
 V96 V97 V98 V99 V100 V101 V102 V103 V104 V105 V106 V107 V108 V109 V110 V111 V112 V113 V114 V115 V116 V117 V118 V119 V120 V121 V122 V123 V124 V125 V126 V127 V128);

fn senum_vals() -> Vec<SEnum> {
    let mut v = vec![SEnum::A, SEnum::E(), SEnum::F {}, SEnum::G(SNew(-300)), SEnum::H(vec![]), SEnum::H(vec![1, 70000u32 as u16]), SEnum::I { only: 300 }, SEnum::J { zeta: 1, alpha: false }, SEnum::J { zeta: 0, alpha: true }];
    v.extend(i16::small().into_iter().map(SEnum::B));
    for a in u8::small() {
        for b in i32::small() {
            v.push(SEnum::C(a, b));
        }
    }
    for x in u64::small() {
        for y in Option::<bool>::dom() {
            v.push(SEnum::D { x, y });
        }
    }
    v
}

struct Runner<'a> {
    ctx: &'a Ctx,
    types: u64,
    evals: u64,
    schemas: Vec<(&'static str, &'static DataModelType)>,
    collect_only: bool,
}

impl Runner<'_> {
    fn chk<T: Serialize + Schema + ?Sized>(&mut self, name: &'static str, vals: Vec<&T>) {
        self.types += 1;
        self.schemas.push((name, T::SCHEMA));
        if self.collect_only {
            return;
        }
        let shape = shape_of(&from_static(T::SCHEMA));
        for (i, v) in vals.iter().enumerate() {
            self.evals += 1;
            let r = trap(|| -> Result<(), (String, String)> {
                let rec = record_tree(*v).map_err(|e| ("record".to_string(), e.0))?;
                conforms(&rec, T::SCHEMA, "$").map_err(|e| ("schema-mismatch".to_string(), e))?;
                if let Some(sh) = &shape {
                    let bytes = postcard::to_allocvec(*v).map_err(|e| ("encode".to_string(), format!("{e:?}")))?;
                    match crate::checks::c05::real_decode(sh, &bytes) {
                        Ok((_, c)) if c == bytes.len() => {}
                        other => return Err(("schema-driven-decode".into(), format!("a reader driven only by the schema gets {:?} on {} ({} bytes)", other.map(|x| x.1), hex(&bytes[..bytes.len().min(40)]), bytes.len()))),
                    }
                }
                Ok(())
            });
            match r {
                Err(p) => self.ctx.violation(&format!("c14-panic:{name}"), format!("panic: {p}"), i as u64, json!({"type": name})),
                Ok(Err((c, w))) => self.ctx.violation(&format!("{c}:{name}"), w, i as u64, json!({"type": name, "value_index": i, "schema": format!("{:?}", T::SCHEMA)})),
                Ok(Ok(())) => {}
            }
        }
    }
    fn dom<T: Serialize + Schema + Dom>(&mut self, name: &'static str) {
        let vals = T::dom();
        self.chk::<T>(name, vals.iter().collect());
    }
    fn list<T: Serialize + Schema>(&mut self, name: &'static str, vals: Vec<T>) {
        self.chk::<T>(name, vals.iter().collect());
    }
}

macro_rules! dom_all {
    ($r:ident; $($t:ty),* $(,)?) => { $( $r.dom::<$t>(stringify!($t)); )* };
}

fn run_corpus(r: &mut Runner) {
    dom_all!(r;
        bool, u8, u16, u32, u64, u128, i8, i16, i32, i64, i128, f32, f64, char, (), String,
        Option<u8>, Option<i16>, Option<Option<u16>>, Option<String>, Option<()>, Result<u32, String>, Result<(), i16>,
        Vec<u8>, Vec<i16>, Vec<u64>, Vec<(u8, u16)>, Vec<String>, Vec<Vec<u8>>, Vec<()>, Vec<Option<i32>>, BTreeSet<u32>, BTreeSet<i16>,
        (u8,), (u8, u16), (i8, i64, String), (bool, char, f32, u128), (u8, u16, u32, u64, i128), (u8, i16, u32, i64, u128, char), ((), u8, ()),
        [u8; 0], [u8; 1], [u16; 3], [i64; 4], [Option<u8>; 2], [[u8; 1]; 3],
        BTreeMap<String, u16>, BTreeMap<u16, String>, BTreeMap<u8, Vec<u8>>, HashMap<String, u32>, HashMap<u64, bool>,
        SNamed, SGen<u8>, SGen<i16>, SGen<String>, SNest,
    );
    // every composition W1<W2<L>> of wrappers over leaves (generated lists: 216 types; 810 with the
    // cargo feature `composed-types` that the thorough tier builds with)
    crate::composed_types_c14!(dom_all!(r;));
    r.list::<NonZeroU8>("NonZeroU8", vec![NonZeroU8::new(1).unwrap(), NonZeroU8::MAX]);
    r.list::<NonZeroI8>("NonZeroI8", vec![NonZeroI8::new(-1).unwrap(), NonZeroI8::MIN]);
    r.list::<NonZeroU16>("NonZeroU16", vec![NonZeroU16::new(1).unwrap(), NonZeroU16::MAX]);
    r.list::<NonZeroI16>("NonZeroI16", vec![NonZeroI16::new(-1).unwrap(), NonZeroI16::MIN]);
    r.list::<NonZeroU32>("NonZeroU32", vec![NonZeroU32::new(1).unwrap(), NonZeroU32::MAX]);
    r.list::<NonZeroI32>("NonZeroI32", vec![NonZeroI32::new(-1).unwrap(), NonZeroI32::MIN]);
    r.list::<NonZeroU64>("NonZeroU64", vec![NonZeroU64::new(1).unwrap(), NonZeroU64::MAX]);
    r.list::<NonZeroI64>("NonZeroI64", vec![NonZeroI64::new(-1).unwrap(), NonZeroI64::MIN]);
    r.list::<NonZeroU128>("NonZeroU128", vec![NonZeroU128::new(1).unwrap(), NonZeroU128::MAX]);
    r.list::<NonZeroI128>("NonZeroI128", vec![NonZeroI128::new(-1).unwrap(), NonZeroI128::MIN]);
    r.list::<Range<u16>>("Range<u16>", vec![0..0, 1..300, 65535..0]);
    r.list::<Range<i64>>("Range<i64>", vec![i64::MIN..i64::MAX, 0..1]);
    r.list::<RangeInclusive<u8>>("RangeInclusive<u8>", vec![0..=255, 7..=3]);
    r.list::<RangeInclusive<i32>>("RangeInclusive<i32>", vec![i32::MIN..=i32::MAX, -1..=1]);
    r.list::<RangeFrom<u32>>("RangeFrom<u32>", vec![0.., 70000..]);
    r.list::<RangeTo<i16>>("RangeTo<i16>", vec![..0, ..-300]);
    // unsized / borrowed
    r.chk::<str>("str", vec!["", "a", "é€😀"]);
    r.chk::<[u16]>("[u16]", vec![&[][..], &[1, 300][..]]);
    r.chk::<[u8]>("[u8]", vec![&[][..], &[0, 255][..]]);
    r.list::<&str>("&str", vec!["", "xyz"]);
    r.list::<&[i32]>("&[i32]", vec![&[][..], &[-1, 70000][..]]);
    r.list::<&u64>("&u64", vec![&0, &u64::MAX]);
    r.list::<std::path::PathBuf>("PathBuf", vec!["".into(), "/tmp/é".into()]);
    r.list::<HashSet<u32>>("HashSet<u32>", vec![HashSet::new(), [70000u32].into_iter().collect()]);
    r.list::<HashSet<String>>("HashSet<String>", vec![HashSet::new(), ["k".to_string()].into_iter().collect()]);
    // heapless 0.7 / 0.8
    {
        let mut v: heapless::Vec<u16, 4> = heapless::Vec::new();
        let e = v.clone();
        v.push(1).unwrap();
        v.push(300).unwrap();
        r.list::<heapless::Vec<u16, 4>>("heapless07::Vec<u16,4>", vec![e, v]);
        let mut s: heapless::String<8> = heapless::String::new();
        let e = s.clone();
        s.push_str("aé").unwrap();
        r.list::<heapless::String<8>>("heapless07::String<8>", vec![e, s]);
        let mut v: heapless08::Vec<i32, 3> = heapless08::Vec::new();
        let e = v.clone();
        v.push(-1).unwrap();
        v.push(70000).unwrap();
        r.list::<heapless08::Vec<i32, 3>>("heapless08::Vec<i32,3>", vec![e, v]);
        let mut s: heapless08::String<8> = heapless08::String::new();
        let e = s.clone();
        s.push_str("zé").unwrap();
        r.list::<heapless08::String<8>>("heapless08::String<8>", vec![e, s]);
    }
    // uuid / chrono / nalgebra
    r.list::<uuid::Uuid>("uuid::Uuid", vec![uuid::Uuid::nil(), uuid::Uuid::from_bytes([0xFF; 16]), uuid::Uuid::from_bytes([1, 2, 3, 4, 5, 6, 7, 8, 9, 10, 11, 12, 13, 14, 15, 16])]);
    {
        use chrono::TimeZone;
        let a = chrono::Utc.timestamp_opt(0, 0).unwrap();
        let b = chrono::Utc.timestamp_opt(1_700_000_000, 123_456_789).unwrap();
        r.list::<chrono::DateTime<chrono::Utc>>("chrono::DateTime<Utc>", vec![a, b]);
        let off = chrono::FixedOffset::east_opt(3600 * 5 + 1800).unwrap();
        r.list::<chrono::DateTime<chrono::FixedOffset>>("chrono::DateTime<FixedOffset>", vec![off.timestamp_opt(86400, 0).unwrap()]);
    }
    r.list::<nalgebra::SMatrix<u8, 3, 3>>("nalgebra::SMatrix<u8,3,3>", vec![nalgebra::SMatrix::<u8, 3, 3>::new(1, 2, 3, 4, 5, 6, 7, 8, 9), nalgebra::SMatrix::<u8, 3, 3>::zeros()]);
    r.list::<nalgebra::SMatrix<i16, 2, 3>>("nalgebra::SMatrix<i16,2,3>", vec![nalgebra::SMatrix::<i16, 2, 3>::new(1, -2, 300, -400, 5, 6)]);
    r.list::<nalgebra::SMatrix<u32, 3, 1>>("nalgebra::SMatrix<u32,3,1>", vec![nalgebra::SMatrix::<u32, 3, 1>::new(1, 70000, 3)]);
    r.list::<nalgebra::SMatrix<f32, 1, 2>>("nalgebra::SMatrix<f32,1,2>", vec![nalgebra::SMatrix::<f32, 1, 2>::new(1.5, -0.0)]);
    // Key and the schema types themselves
    r.list::<Key>("Key", vec![Key::for_path::<u8>("a"), Key::for_path::<SNest>("test_path")]);
    {
        // the borrowed schema type itself, every kind (its Schema is the `Schema` kind: a host reads it as an owned schema)
        let mut arena = crate::schema_glue::Arena::default();
        let mut all: Vec<&'static DataModelType> = vmodel::schema::PRIM_KINDS.iter().map(|k| arena.build(k)).collect();
        all.push(arena.build(&vmodel::schema::St::Schema));
        all.extend([SNest::SCHEMA, SOuter::SCHEMA, <BTreeMap<String, Option<[u8; 2]>>>::SCHEMA, <(u8, Vec<i16>)>::SCHEMA]);
        r.chk::<DataModelType>("DataModelType(borrowed)", all);
    }
    r.list::<OwnedDataModelType>(
        "OwnedDataModelType",
        vec![OwnedDataModelType::Bool, OwnedDataModelType::from(SNest::SCHEMA), OwnedDataModelType::from(SOuter::SCHEMA), OwnedDataModelType::from(<BTreeMap<String, Option<[u8; 2]>>>::SCHEMA)],
    );
    // derived
    r.list::<SUnit>("SUnit", vec![SUnit]);
    r.list::<SNew>("SNew", i16::dom().into_iter().map(SNew).collect());
    r.list::<STup>("STup", <(u8, i64, String)>::dom().into_iter().map(|(a, b, c)| STup(a, b, c)).collect());
    r.list::<STup0>("STup0", vec![STup0()]);
    r.list::<SNamed0>("SNamed0", vec![SNamed0 {}]);
    let n = 7u32;
    r.list::<SLife>("SLife<'a>", vec![SLife { s: "", b: &[], n: &n }, SLife { s: "é", b: &[0, 255], n: &n }]);
    r.list::<SRaw>("SRaw(raw identifiers)", vec![SRaw { r#type: 1, plain: true, r#match: -300 }]);
    r.list::<ERaw>("ERaw(raw identifiers)", vec![ERaw::r#loop, ERaw::r#fn(7), ERaw::Plain { r#ref: 300 }]);
    r.list::<EDisc>("EDisc(explicit discriminants)", vec![EDisc::Reset, EDisc::Read, EDisc::Write, EDisc::Last]);
    r.list::<EDiscPayload>("EDiscPayload(explicit discriminants)", vec![EDiscPayload::Data(7), EDiscPayload::Idle, EDiscPayload::Named { x: 300 }, EDiscPayload::Pair(1, true)]);
    r.list::<SEnum>("SEnum", senum_vals());
    r.list::<SBig>("SBig(130 variants)", SBig::all());
    r.list::<(SBig, u8)>("(SBig, u8)", SBig::all().into_iter().map(|e| (e, 5u8)).collect());
    let es = senum_vals();
    let mut outer = vec![];
    for e in &es {
        outer.push(SOuter::Leaf(e.clone()));
    }
    outer.push(SOuter::Pair(SEnum::B(-1), SNew(5)));
    outer.push(SOuter::Rec { e: SEnum::A, list: es.clone(), m: [("k".to_string(), SEnum::D { x: 1, y: None })].into_iter().collect() });
    r.list::<SOuter>("SOuter", outer);
    r.list::<Vec<SEnum>>("Vec<SEnum>", vec![vec![], es.clone()]);
    r.list::<Option<SOuter>>("Option<SOuter>", vec![None, Some(SOuter::Leaf(SEnum::F {}))]);
    r.list::<(SEnum, SNamed)>("(SEnum, SNamed)", SNamed::small().into_iter().map(|n| (SEnum::C(1, -1), n)).collect());
}

pub fn corpus_schemas() -> Vec<(&'static str, &'static DataModelType)> {
    let ctx = Ctx::new("C14-collect", crate::rt::Tier::Quick, 0, "model_checking");
    let mut r = Runner { ctx: &ctx, types: 0, evals: 0, schemas: vec![], collect_only: true };
    run_corpus(&mut r);
    r.schemas
}

pub const CONST_PATHS: [&str; 4] = ["", "test_path", "é/ü", "a/rather/long/path/that/exceeds/sixty-four/bytes/so/that/any/blocking/shows"];

macro_rules! const_keys {
    ($($t:ty),* $(,)?) => {{
        let mut v: Vec<(&'static str, &'static DataModelType, [[u8; 8]; 4])> = vec![];
        $( {
            const K0: Key = Key::for_path::<$t>(CONST_PATHS[0]);
            const K1: Key = Key::for_path::<$t>(CONST_PATHS[1]);
            const K2: Key = Key::for_path::<$t>(CONST_PATHS[2]);
            const K3: Key = Key::for_path::<$t>(CONST_PATHS[3]);
            v.push((stringify!($t), <$t as Schema>::SCHEMA, [K0.to_bytes(), K1.to_bytes(), K2.to_bytes(), K3.to_bytes()]));
        } )*
        v
    }};
}

/// keys evaluated in a const context (CTFE), for a sub-corpus covering every tag
pub fn corpus_const_keys() -> Vec<(&'static str, &'static DataModelType, [[u8; 8]; 4])> {
    const_keys!(
        bool, u8, u16, u32, u64, u128, i8, i16, i32, i64, i128, f32, f64, char, (), String, str,
        Option<u8>, Vec<u16>, [u16], (u8, i16), [u8; 3], BTreeMap<String, u32>, Result<u32, String>,
        SUnit, SNew, STup, STup0, SNamed0, SNamed, SGen<u8>, SNest, SEnum, SOuter, Key, OwnedDataModelType, uuid::Uuid, Range<u16>,
    )
}

pub fn run(ctx: &Ctx) {
    let mut r = Runner { ctx, types: 0, evals: 0, schemas: vec![], collect_only: false };
    run_corpus(&mut r);
    ctx.add_evals(r.evals);
    ctx.add_nontrivial(r.evals);
    ctx.class("types", r.types);
    ctx.class("composed-types(generated W1<W2<L> list)", crate::checks::typed_gen::COMPOSED_C14 as u64);
    // every node kind except Usize/Isize (no built-in impl) must occur in the corpus schemas
    let mut kinds = BTreeSet::new();
    for (_, s) in &r.schemas {
        let t = from_static(s);
        let mut v = vec![];
        t.subtrees(&mut v);
        for x in v {
            kinds.insert(x.kind_name());
        }
    }
    if kinds.len() < 24 {
        ctx.machinery(format!("vacuity guard: corpus schemas cover only {} node kinds: {:?}", kinds.len(), kinds));
    }
    let mut ev = ctx.ev.lock().unwrap();
    ev.bound("types", json!(r.types));
    ev.bound("schema_node_kinds_in_corpus", json!(kinds.len()));
    ev.rule = "typed corpus: every built-in Schema impl (core/alloc/std, heapless 0.7/0.8, uuid, chrono, nalgebra, Key, OwnedDataModelType) and derived structs/enums (unit/newtype/tuple/named/generic/lifetime/nested, every variant form incl. zero-field ones) x completely enumerated bounded value sets; the call tree recorded by an independent Serializer (is_human_readable=false) must conform to T::SCHEMA (kinds, arity, field names and order, variant names and indices, element schemas; type names not compared; tuple nesting and bytes-vs-seq<u8> treated as wire-identical), and a decoder driven only by the schema must consume each encoding exactly".into();
    ev.sample(json!({"type": "SEnum", "value": "D { x: 18446744073709551615, y: Some(true) }", "call": "struct_variant(idx 3, \"D\", [x: u64, y: some(bool)])"}));
    ev.sample(json!({"type": "nalgebra::SMatrix<u8,3,3>", "call": "tuple(3)[tuple(3)[u8..]..]", "schema": "Tuple([U8; 9])"}));
    ev.assumptions = vec!["finite typed corpus; serde attributes that change representation are out of scope (as the property says)".into()];
}
