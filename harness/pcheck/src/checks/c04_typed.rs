//! C04 on concrete types: std / heapless `Deserialize` impls with their real allocation behaviour,
//! borrowed `&str` / `&[u8]` results, and requests the format cannot serve.

use crate::checks::c03::{perturbations, A_DEC};
use crate::rt::{count_allocs, hex, set_case, trap, with_arena, Ctx};
use rayon::prelude::*;
use serde::Deserialize;
use serde_json::json;
use std::collections::{BTreeMap, BTreeSet, VecDeque};
use std::sync::atomic::{AtomicU64, Ordering};
use vmodel::shape::{Shape, Val};
use vmodel::spec::{spec_decode, spec_encode_segs, varint};

#[derive(Deserialize, Debug)]
#[allow(dead_code)]
struct Borrowed<'a> {
    #[serde(borrow)]
    a: &'a str,
    n: u16,
    #[serde(borrow)]
    b: &'a [u8],
    #[serde(borrow)]
    c: &'a str,
}
#[derive(Deserialize, Debug)]
#[allow(dead_code)]
enum WithVecs {
    A(Vec<u64>),
    B { s: String, v: Vec<u8> },
    C,
}
#[derive(Deserialize, Debug)]
#[serde(untagged)]
#[allow(dead_code)]
enum Untagged {
    A(u8),
    B(String),
}
#[derive(Deserialize, Debug)]
#[serde(tag = "t")]
#[allow(dead_code)]
enum InternallyTagged {
    A { x: u8 },
    B,
}
#[derive(Deserialize, Debug)]
#[allow(dead_code)]
struct Inner {
    y: u8,
}
#[derive(Deserialize, Debug)]
#[allow(dead_code)]
struct Flattened {
    x: u8,
    #[serde(flatten)]
    inner: Inner,
}

fn inputs(quick: bool, seeds: &[(Shape, Val)]) -> Vec<Vec<u8>> {
    let mut v: Vec<Vec<u8>> = vec![];
    for l in 0..=(if quick { 3 } else { 4 }) {
        vmodel::for_each_string(&A_DEC, l, &mut |s| v.push(s.to_vec()));
    }
    // adversarial length prefixes, bare / after an option tag / after a discriminant, with small tails
    for adv in [0u128, 1, 2, 3, 127, 128, 1 << 14, 1 << 17, 1 << 21, (1 << 32) - 1, 1 << 32, 1 << 47, 1 << 62, (1 << 63) - 1, 1 << 63, u64::MAX as u128 - 1, u64::MAX as u128] {
        for tail in [&[][..], &[0x00][..], &[0x01, 0x01][..], &[0x61, 0x62, 0x63][..], &[0xFF, 0xFF, 0xFF, 0x7F][..]] {
            for pre in [&[][..], &[0x01][..], &[0x00][..], &[0x02, 0x61, 0x62, 0x05, 0x00][..]] {
                let mut x = pre.to_vec();
                x.extend(varint(adv));
                x.extend_from_slice(tail);
                v.push(x.clone());
                // nested: outer length 1/2 then the adversarial inner length
                let mut y = pre.to_vec();
                y.push(0x02);
                y.extend(varint(adv));
                y.extend_from_slice(tail);
                v.push(y);
            }
        }
    }
    for (_s, val) in seeds {
        let (e, segs) = spec_encode_segs(val).unwrap();
        v.push(e.clone());
        perturbations(&e, &segs, &A_DEC, &mut v);
    }
    v.sort();
    v.dedup();
    v
}

pub fn run(ctx: &Ctx) {
    let seeds: Vec<(Shape, Val)> = vec![
        (Shape::Str, Val::Str("héllo".into())),
        (Shape::Bytes, Val::Bytes(vec![1, 0, 255, 7])),
        (Shape::Seq(Box::new(Shape::U64)), Val::Seq(vec![Val::U64(1), Val::U64(u64::MAX), Val::U64(300)])),
        (Shape::Seq(Box::new(Shape::Str)), Val::Seq(vec![Val::Str("a".into()), Val::Str("bc".into())])),
        (Shape::Seq(Box::new(Shape::Bytes)), Val::Seq(vec![Val::Bytes(vec![1]), Val::Bytes(vec![])])),
        (
            Shape::Struct(vec![Shape::Str, Shape::U16, Shape::Bytes, Shape::Str]),
            Val::Struct(vec![Val::Str("ab".into()), Val::U16(300), Val::Bytes(vec![9, 9]), Val::Str("é".into())]),
        ),
        (Shape::Option(Box::new(Shape::Seq(Box::new(Shape::U64)))), Val::Some(Box::new(Val::Seq(vec![Val::U64(5)])))),
        (Shape::Map(Box::new(Shape::Str), Box::new(Shape::U32)), Val::Map(vec![(Val::Str("k".into()), Val::U32(70000))])),
    ];
    let xs = inputs(ctx.quick(), &seeds);
    let evals = AtomicU64::new(0);
    let accepted = AtomicU64::new(0);
    let refused = AtomicU64::new(0);

    macro_rules! sweep {
        ($t:ty, $name:expr, $bound_per_byte:expr, $check_ok:expr) => {{
            xs.par_iter().enumerate().for_each(|(i, x)| {
                for at_end in [true, false] {
                    evals.fetch_add(1, Ordering::Relaxed);
                    let r = with_arena(x.len() + 16, |a| {
                        let inp: &[u8] = a.place(x, at_end);
                        let base = inp.as_ptr() as usize;
                        let mut cs = Vec::with_capacity(96);
                        let _ = serde_json::to_writer(&mut cs, &json!({"type": $name, "input": hex(x), "guard_at_end": at_end}));
                        set_case(&cs);
                        let (r, stats) = count_allocs(256 << 20, || {
                            trap(|| match postcard::take_from_bytes::<$t>(inp) {
                                Ok((v, rem)) => {
                                    let f: &dyn Fn(&$t, usize, usize, &[u8]) -> Result<(), String> = &$check_ok;
                                    let chk = f(&v, base, inp.len(), x);
                                    Ok((rem.as_ptr() as usize - base, rem.len(), chk))
                                }
                                Err(e) => Err(e),
                            })
                        });
                        (r, stats)
                    });
                    let case = || json!({"type": $name, "input": hex(x), "guard_at_end": at_end});
                    let order = i as u64;
                    match r.0 {
                        Err(p) => ctx.violation(&format!("typed-panic:{}", $name), format!("decoding panicked: {p}"), order, case()),
                        Ok(Ok((off, len, chk))) => {
                            accepted.fetch_add(1, Ordering::Relaxed);
                            if off + len != x.len() || off > x.len() {
                                ctx.violation(&format!("typed-remainder:{}", $name), format!("remainder at {} len {} for input of {}", off, len, x.len()), order, case());
                            }
                            if let Err(e) = chk {
                                ctx.violation(&format!("typed-borrow:{}", $name), e, order, case());
                            }
                        }
                        Ok(Err(_)) => {}
                    }
                    let bound: u64 = $bound_per_byte * (x.len() as u64 + 8);
                    if bound > 0 && r.1.requested > bound {
                        ctx.violation(
                            &format!("typed-alloc:{}", $name),
                            format!("{} bytes requested from the allocator for a {}-byte input (bound {})", r.1.requested, x.len(), bound),
                            order,
                            case(),
                        );
                    }
                }
            });
        }};
    }
    // borrowed results must lie inside the input at the position the spec decoder predicts
    sweep!(&str, "&str", 0, |v: &&str, base: usize, _len: usize, x: &[u8]| {
        let sd = spec_decode(&Shape::Str, x);
        let want = sd.takes.first().map(|t| (t.off, t.len));
        let got = (v.as_ptr() as usize).wrapping_sub(base);
        if want != Some((got, v.len())) {
            return Err(format!("borrowed str at +{} len {}, spec predicts {:?}", got, v.len(), want));
        }
        Ok(())
    });
    sweep!(&[u8], "&[u8]", 0, |v: &&[u8], base: usize, _len: usize, x: &[u8]| {
        let sd = spec_decode(&Shape::Bytes, x);
        let want = sd.takes.first().map(|t| (t.off, t.len));
        let got = (v.as_ptr() as usize).wrapping_sub(base);
        if want != Some((got, v.len())) {
            return Err(format!("borrowed bytes at +{} len {}, spec predicts {:?}", got, v.len(), want));
        }
        Ok(())
    });
    sweep!(Borrowed, "struct{&str,u16,&[u8],&str}", 0, |v: &Borrowed, base: usize, _len: usize, x: &[u8]| {
        let sh = Shape::Struct(vec![Shape::Str, Shape::U16, Shape::Bytes, Shape::Str]);
        let sd = spec_decode(&sh, x);
        let want: Vec<(usize, usize)> = sd.takes.iter().map(|t| (t.off, t.len)).collect();
        let got = vec![
            ((v.a.as_ptr() as usize).wrapping_sub(base), v.a.len()),
            ((v.b.as_ptr() as usize).wrapping_sub(base), v.b.len()),
            ((v.c.as_ptr() as usize).wrapping_sub(base), v.c.len()),
        ];
        if got != want {
            return Err(format!("borrowed fields at {:?}, spec predicts {:?}", got, want));
        }
        Ok(())
    });
    // allocating types: bytes requested bounded by a per-type multiple of the input length
    sweep!(Vec<u8>, "Vec<u8>", 16, |_, _, _, _| Ok(()));
    sweep!(String, "String", 16, |_, _, _, _| Ok(()));
    sweep!(Vec<u64>, "Vec<u64>", 64, |_, _, _, _| Ok(()));
    sweep!(Vec<(u8, u16)>, "Vec<(u8,u16)>", 64, |_, _, _, _| Ok(()));
    sweep!(Vec<String>, "Vec<String>", 256, |_, _, _, _| Ok(()));
    sweep!(Vec<Vec<u8>>, "Vec<Vec<u8>>", 256, |_, _, _, _| Ok(()));
    sweep!(Box<[u32]>, "Box<[u32]>", 64, |_, _, _, _| Ok(()));
    sweep!(VecDeque<u16>, "VecDeque<u16>", 64, |_, _, _, _| Ok(()));
    sweep!(BTreeSet<u32>, "BTreeSet<u32>", 256, |_, _, _, _| Ok(()));
    sweep!(std::ffi::CString, "CString", 32, |_, _, _, _| Ok(()));
    sweep!(heapless::Vec<u8, 4>, "heapless::Vec<u8,4>", 1, |_, _, _, _| Ok(()));
    sweep!(Option<Vec<u64>>, "Option<Vec<u64>>", 64, |_, _, _, _| Ok(()));
    sweep!(WithVecs, "enum{A(Vec<u64>),B{String,Vec<u8>},C}", 64, |_, _, _, _| Ok(()));
    // maps are deliberately outside the bound (DESIGN 4b.3): totality only
    sweep!(BTreeMap<String, u32>, "BTreeMap<String,u32>", 0, |_, _, _, _| Ok(()));
    sweep!(std::collections::HashMap<u16, Vec<u8>>, "HashMap<u16,Vec<u8>>", 0, |_, _, _, _| Ok(()));
    // the same allocation bound through the CRC-checked decoders (size hints pass through the modifier)
    macro_rules! sweep_crc {
        ($t:ty, $name:expr, $bound_per_byte:expr) => {{
            xs.par_iter().enumerate().for_each(|(i, x)| {
                for algo in [crate::framing::CrcAlgo::C8A, crate::framing::CrcAlgo::C32C, crate::framing::CrcAlgo::C128A] {
                    evals.fetch_add(1, Ordering::Relaxed);
                    let (r, stats) = with_arena(x.len() + 16, |a| {
                        let inp: &[u8] = a.place(x, true);
                        count_allocs(256 << 20, || trap(|| crate::framing::crc_take::<$t>(algo, inp).map(|_| ())))
                    });
                    let case = || json!({"type": $name, "entry": format!("take_from_bytes_crc ({})", algo.params().name), "input": hex(x)});
                    if let Err(p) = r {
                        ctx.violation(&format!("typed-panic:crc:{}", $name), format!("panicked: {p}"), i as u64, case());
                    }
                    let bound: u64 = $bound_per_byte * (x.len() as u64 + 8);
                    if stats.requested > bound {
                        ctx.violation(&format!("typed-alloc:crc:{}", $name), format!("{} bytes requested for a {}-byte input (bound {})", stats.requested, x.len(), bound), i as u64, case());
                    }
                }
            });
        }};
    }
    sweep_crc!(Vec<u64>, "Vec<u64>", 64);
    sweep_crc!(String, "String", 16);
    sweep_crc!(Vec<Vec<u8>>, "Vec<Vec<u8>>", 256);
    // reader-based decoding of untrusted bytes: never writes outside the scratch buffer (flush against
    // a guard page), never panics, allocation bounded in terms of input + scratch
    macro_rules! sweep_io {
        ($t:ty, $name:expr, $bound_per_byte:expr) => {{
            xs.par_iter().enumerate().for_each(|(i, x)| {
                for scratch_len in [0usize, 3, 16] {
                    for eio in [false, true] {
                        evals.fetch_add(1, Ordering::Relaxed);
                        let (r, stats) = with_arena(64, |a| {
                            let mut cs = Vec::with_capacity(96);
                            let _ = serde_json::to_writer(&mut cs, &json!({"type": $name, "entry": if eio { "from_eio" } else { "from_io" }, "input": hex(x), "scratch_len": scratch_len}));
                            set_case(&cs);
                            let scratch = a.flush_end(scratch_len);
                            count_allocs(256 << 20, || {
                                trap(|| {
                                    if eio {
                                        postcard::from_eio::<$t, _>((crate::checks::c01::EioSlice(&x[..]), scratch)).map(|_| ())
                                    } else {
                                        postcard::from_io::<$t, _>((&x[..], scratch)).map(|_| ())
                                    }
                                })
                            })
                        });
                        let case = || json!({"type": $name, "entry": if eio { "from_eio" } else { "from_io" }, "input": hex(x), "scratch_len": scratch_len});
                        if let Err(p) = r {
                            ctx.violation(&format!("typed-panic:io:{}", $name), format!("panicked: {p}"), i as u64, case());
                        }
                        let bound: u64 = $bound_per_byte * (x.len() as u64 + scratch_len as u64 + 8);
                        if stats.requested > bound {
                            ctx.violation(&format!("typed-alloc:io:{}", $name), format!("{} bytes requested for a {}-byte input and {}-byte scratch (bound {})", stats.requested, x.len(), scratch_len, bound), i as u64, case());
                        }
                    }
                }
            });
        }};
    }
    sweep_io!(&str, "&str", 16);
    sweep_io!(&[u8], "&[u8]", 16);
    sweep_io!(Borrowed, "struct{&str,u16,&[u8],&str}", 16);
    sweep_io!(String, "String", 32);
    sweep_io!(Vec<u64>, "Vec<u64>", 64);
    sweep_io!(Vec<String>, "Vec<String>", 256);
    // requests the format cannot serve are refused with an error
    macro_rules! refuse {
        ($t:ty, $name:expr) => {{
            xs.par_iter().enumerate().for_each(|(i, x)| {
                if x.len() > 6 {
                    return;
                }
                evals.fetch_add(1, Ordering::Relaxed);
                match trap(|| postcard::from_bytes::<$t>(x).map(|_| ())) {
                    Err(p) => ctx.violation(&format!("typed-panic:{}", $name), format!("panicked: {p}"), i as u64, json!({"type": $name, "input": hex(x)})),
                    Ok(Ok(())) => ctx.violation(&format!("unservable-request-accepted:{}", $name), "a self-describing / identifier / ignored request was served".into(), i as u64, json!({"type": $name, "input": hex(x)})),
                    Ok(Err(_)) => {
                        refused.fetch_add(1, Ordering::Relaxed);
                    }
                }
            });
        }};
    }
    refuse!(serde_json::Value, "serde_json::Value (any)");
    refuse!(serde::de::IgnoredAny, "IgnoredAny");
    refuse!(Untagged, "untagged enum (any)");
    refuse!(InternallyTagged, "internally tagged enum (any)");
    refuse!(Flattened, "struct with flatten (any / identifier)");
    let n = evals.load(Ordering::Relaxed);
    ctx.add_evals(n);
    ctx.add_nontrivial(n);
    ctx.class("typed:decodes", n);
    ctx.class("typed:accepted", accepted.load(Ordering::Relaxed));
    ctx.class("typed:unservable-requests-refused", refused.load(Ordering::Relaxed));
    ctx.require_class("typed:accepted");
    ctx.require_class("typed:unservable-requests-refused");
    ctx.ev.lock().unwrap().bound("typed_inputs", json!(xs.len()));
}
