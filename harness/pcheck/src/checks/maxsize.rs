//! C12 POSTCARD_MAX_SIZE bounds every value and is tight where claimed.

use crate::rt::{trap, Ctx};
use postcard::experimental::max_size::MaxSize;
use postcard::experimental::serialized_size;
use serde::Serialize;
use serde_json::json;
use std::marker::PhantomData;
use std::num::*;
use std::ops::{Range, RangeFrom, RangeInclusive, RangeTo};
use std::rc::Rc;
use std::sync::Arc;

pub trait Vals: Sized + Clone {
    /// complete bounded set of extreme values
    fn vals() -> Vec<Self>;
    /// a value with the longest encoding
    fn maxer() -> Self;
    fn few() -> Vec<Self> {
        let v = Self::vals();
        vec![v[0].clone(), Self::maxer()]
    }
}

macro_rules! vals_uint {
    ($($t:ty),*) => {$(
        impl Vals for $t {
            fn vals() -> Vec<Self> {
                let bits = <$t>::BITS;
                let mut v: Vec<$t> = vec![0, 1, <$t>::MAX];
                let mut j = 7;
                while j < bits { v.push(((1u128 << j) - 1) as $t); v.push((1u128 << j) as $t); j += 7; }
                if bits <= 16 { v = (0..=<$t>::MAX).collect(); }
                v
            }
            fn maxer() -> Self { <$t>::MAX }
        }
    )*};
}
macro_rules! vals_sint {
    ($($t:ty),*) => {$(
        impl Vals for $t {
            fn vals() -> Vec<Self> {
                let bits = <$t>::BITS;
                let mut v: Vec<$t> = vec![0, 1, -1, <$t>::MAX, <$t>::MIN];
                let mut j = 6;
                while j < bits - 1 { let p = (1i128 << j) as $t; v.push(p - 1); v.push(p); v.push(-p); v.push(-p - 1); j += 7; }
                if bits <= 16 { v = (<$t>::MIN..=<$t>::MAX).collect(); }
                v
            }
            fn maxer() -> Self { <$t>::MIN }
        }
    )*};
}
vals_uint!(u8, u16, u32, u64, u128, usize);
vals_sint!(i8, i16, i32, i64, i128, isize);

macro_rules! vals_nonzero {
    ($($nz:ty : $t:ty),*) => {$(
        impl Vals for $nz {
            fn vals() -> Vec<Self> { <$t as Vals>::vals().into_iter().filter_map(<$nz>::new).collect() }
            fn maxer() -> Self { <$nz>::new(<$t as Vals>::maxer()).unwrap() }
        }
    )*};
}
vals_nonzero!(NonZeroU8: u8, NonZeroU16: u16, NonZeroU32: u32, NonZeroU64: u64, NonZeroU128: u128, NonZeroUsize: usize,
              NonZeroI8: i8, NonZeroI16: i16, NonZeroI32: i32, NonZeroI64: i64, NonZeroI128: i128, NonZeroIsize: isize);

impl Vals for bool {
    fn vals() -> Vec<Self> {
        vec![false, true]
    }
    fn maxer() -> Self {
        true
    }
}
impl Vals for () {
    fn vals() -> Vec<Self> {
        vec![()]
    }
    fn maxer() -> Self {}
}
impl Vals for char {
    fn vals() -> Vec<Self> {
        vmodel::shape::char_boundaries()
    }
    fn maxer() -> Self {
        '\u{10FFFF}'
    }
}
impl Vals for f32 {
    fn vals() -> Vec<Self> {
        vec![0.0, -0.0, 1.0, f32::MAX, f32::MIN_POSITIVE, f32::INFINITY, f32::NAN]
    }
    fn maxer() -> Self {
        f32::NAN
    }
}
impl Vals for f64 {
    fn vals() -> Vec<Self> {
        vec![0.0, -0.0, 1.0, f64::MAX, f64::MIN_POSITIVE, f64::NEG_INFINITY, f64::NAN]
    }
    fn maxer() -> Self {
        f64::MAX
    }
}
impl<T: Vals> Vals for Option<T> {
    fn vals() -> Vec<Self> {
        let mut v = vec![None];
        v.extend(T::vals().into_iter().map(Some));
        v
    }
    fn maxer() -> Self {
        Some(T::maxer())
    }
}
impl<T: Vals + MaxSize, E: Vals + MaxSize> Vals for Result<T, E> {
    fn vals() -> Vec<Self> {
        T::vals().into_iter().map(Ok).chain(E::vals().into_iter().map(Err)).collect()
    }
    fn maxer() -> Self {
        if T::POSTCARD_MAX_SIZE >= E::POSTCARD_MAX_SIZE {
            Ok(T::maxer())
        } else {
            Err(E::maxer())
        }
    }
}
impl<T: Vals, const N: usize> Vals for [T; N] {
    fn vals() -> Vec<Self> {
        let f = T::few();
        let mut out = vec![];
        for a in &f {
            out.push(std::array::from_fn(|_| a.clone()));
        }
        for p in 0..N {
            out.push(std::array::from_fn(|i| if i == p { f[1].clone() } else { f[0].clone() }));
        }
        if N == 1 {
            out = T::vals().into_iter().map(|x| std::array::from_fn(|_| x.clone())).collect();
        }
        out
    }
    fn maxer() -> Self {
        std::array::from_fn(|_| T::maxer())
    }
}
macro_rules! vals_tuple {
    ($(($($n:ident),+))*) => {$(
        impl<$($n: Vals),+> Vals for ($($n,)+) {
            fn vals() -> Vec<Self> {
                let mut acc: Vec<Self> = vec![];
                vals_tuple!(@prod acc; (); $($n)+);
                acc
            }
            fn maxer() -> Self { ($($n::maxer(),)+) }
        }
    )*};
    (@prod $acc:ident; ($($done:ident)*); $h:ident $($t:ident)*) => {
        #[allow(non_snake_case)]
        for $h in <$h as Vals>::few() { vals_tuple!(@prod $acc; ($($done)* $h); $($t)*); }
    };
    (@prod $acc:ident; ($($done:ident)*); ) => { $acc.push(($($done.clone(),)*)); };
}
vals_tuple! { (A) (A, B) (A, B, C) (A, B, C, D) (A, B, C, D, E) (A, B, C, D, E, F) }

macro_rules! vals_wrap {
    ($($w:ident),*) => {$(
        impl<T: Vals> Vals for $w<T> {
            fn vals() -> Vec<Self> { T::vals().into_iter().map($w::new).collect() }
            fn maxer() -> Self { $w::new(T::maxer()) }
        }
    )*};
}
vals_wrap!(Box, Rc, Arc);
impl<T: Clone> Vals for PhantomData<T> {
    fn vals() -> Vec<Self> {
        vec![PhantomData]
    }
    fn maxer() -> Self {
        PhantomData
    }
}
impl<T: Vals> Vals for Range<T> {
    fn vals() -> Vec<Self> {
        let f = T::few();
        let mut v = vec![];
        for a in &f {
            for b in &f {
                v.push(a.clone()..b.clone());
            }
        }
        v
    }
    fn maxer() -> Self {
        T::maxer()..T::maxer()
    }
}
impl<T: Vals> Vals for RangeInclusive<T> {
    fn vals() -> Vec<Self> {
        let f = T::few();
        let mut v = vec![];
        for a in &f {
            for b in &f {
                v.push(a.clone()..=b.clone());
            }
        }
        v
    }
    fn maxer() -> Self {
        T::maxer()..=T::maxer()
    }
}
impl<T: Vals> Vals for RangeFrom<T> {
    fn vals() -> Vec<Self> {
        T::vals().into_iter().map(|a| a..).collect()
    }
    fn maxer() -> Self {
        T::maxer()..
    }
}
impl<T: Vals> Vals for RangeTo<T> {
    fn vals() -> Vec<Self> {
        T::vals().into_iter().map(|a| ..a).collect()
    }
    fn maxer() -> Self {
        ..T::maxer()
    }
}
impl<T: Vals, const N: usize> Vals for heapless::Vec<T, N> {
    fn vals() -> Vec<Self> {
        let f = T::few();
        let mut out = vec![heapless::Vec::new()];
        for len in [1usize, 2, 127, 128, N.saturating_sub(1), N] {
            if len <= N && len > 0 {
                for a in &f {
                    let mut v = heapless::Vec::new();
                    for _ in 0..len {
                        let _ = v.push(a.clone());
                    }
                    out.push(v);
                }
            }
        }
        out
    }
    fn maxer() -> Self {
        let mut v = heapless::Vec::new();
        for _ in 0..N {
            let _ = v.push(T::maxer());
        }
        v
    }
}
impl<const N: usize> Vals for heapless::String<N> {
    fn vals() -> Vec<Self> {
        let mut out = vec![heapless::String::new()];
        for len in [1usize, 2, 127, 128, N.saturating_sub(1), N] {
            if len <= N && len > 0 {
                let mut s = heapless::String::new();
                for _ in 0..len {
                    let _ = s.push('a');
                }
                out.push(s);
                // 4-byte chars as far as they fit
                let mut s = heapless::String::new();
                while s.len() + 4 <= len {
                    let _ = s.push('😀');
                }
                while s.len() < len {
                    let _ = s.push('b');
                }
                out.push(s);
            }
        }
        out
    }
    fn maxer() -> Self {
        let mut s = heapless::String::new();
        while s.len() + 4 <= N {
            let _ = s.push('😀');
        }
        while s.len() < N {
            let _ = s.push('b');
        }
        s
    }
}

// ---- derived with the LOCAL postcard-derive ----
macro_rules! derived {
    ($(#[$m:meta])* struct $name:ident $(<$g:ident>)? { $($f:ident : $t:ty),* }) => {
        #[derive(Serialize, Clone, postcard_derive::MaxSize)]
        pub struct $name $(<$g>)? { $(pub $f: $t),* }
        impl $(<$g: Vals>)? Vals for $name $(<$g>)? {
            fn vals() -> Vec<Self> {
                let mut acc = vec![];
                derived!(@prod acc; $name; (); $($f : $t),*);
                acc
            }
            fn maxer() -> Self { $name { $($f: <$t as Vals>::maxer()),* } }
        }
    };
    (@prod $acc:ident; $name:ident; ($($done:ident)*); $h:ident : $ht:ty $(, $f:ident : $t:ty)*) => {
        for $h in <$ht as Vals>::few() { derived!(@prod $acc; $name; ($($done)* $h); $($f : $t),*); }
    };
    (@prod $acc:ident; $name:ident; ($($done:ident)*); ) => { $acc.push($name { $($done: $done.clone()),* }); };
}
derived! { struct DNamed { a: u32, b: Option<i64>, c: char, d: [u16; 3] } }
derived! { struct DEmpty {} }
derived! { struct DGen<T> { t: T, n: u16, o: Option<T> } }
derived! { struct DNest { inner: DNamed, e: DEnum, g: DGen<i128> } }

#[derive(Serialize, Clone, postcard_derive::MaxSize)]
pub struct DUnit;
impl Vals for DUnit {
    fn vals() -> Vec<Self> {
        vec![DUnit]
    }
    fn maxer() -> Self {
        DUnit
    }
}
#[derive(Serialize, Clone, postcard_derive::MaxSize)]
pub struct DNew(pub u64);
impl Vals for DNew {
    fn vals() -> Vec<Self> {
        u64::vals().into_iter().map(DNew).collect()
    }
    fn maxer() -> Self {
        DNew(u64::MAX)
    }
}
#[derive(Serialize, Clone, postcard_derive::MaxSize)]
pub struct DTup(pub u8, pub i32, pub bool, pub heapless::String<5>);
impl Vals for DTup {
    fn vals() -> Vec<Self> {
        <(u8, i32, bool, heapless::String<5>)>::vals().into_iter().map(|(a, b, c, d)| DTup(a, b, c, d)).collect()
    }
    fn maxer() -> Self {
        DTup(255, i32::MIN, true, heapless::String::<5>::maxer())
    }
}
#[derive(Serialize, Clone, postcard_derive::MaxSize)]
pub enum DEnum {
    A,
    B(u16),
    C(u8, i64),
    D { x: u128, y: Option<bool> },
    E(),
    F {},
}
impl Vals for DEnum {
    fn vals() -> Vec<Self> {
        let mut v = vec![DEnum::A, DEnum::E(), DEnum::F {}];
        v.extend(u16::few().into_iter().map(DEnum::B));
        for a in u8::few() {
            for b in i64::vals() {
                v.push(DEnum::C(a, b));
            }
        }
        for x in u128::vals() {
            for y in Option::<bool>::vals() {
                v.push(DEnum::D { x, y });
            }
        }
        v
    }
    fn maxer() -> Self {
        DEnum::D { x: u128::MAX, y: Some(true) }
    }
}
#[derive(Serialize, Clone, postcard_derive::MaxSize)]
pub enum DOne {
    Only(u32),
}
impl Vals for DOne {
    fn vals() -> Vec<Self> {
        u32::vals().into_iter().map(DOne::Only).collect()
    }
    fn maxer() -> Self {
        DOne::Only(u32::MAX)
    }
}
#[derive(Serialize, Clone, postcard_derive::MaxSize)]
pub enum DTwo {
    X,
    Y(u8),
}
impl Vals for DTwo {
    fn vals() -> Vec<Self> {
        vec![DTwo::X, DTwo::Y(0), DTwo::Y(255)]
    }
    fn maxer() -> Self {
        DTwo::Y(255)
    }
}

macro_rules! big_enum {
    ($name:ident; $last:ident; $($v:ident)*) => {
        #[derive(Serialize, Clone, Copy, postcard_derive::MaxSize)]
        pub enum $name { $($v,)* $last(u8) }
        impl Vals for $name {
            fn vals() -> Vec<Self> { vec![$($name::$v,)* $name::$last(0), $name::$last(255)] }
            fn maxer() -> Self { $name::$last(255) }
        }
    };
}
// enums with 127, 128 and 129 variants; the LAST variant (highest index) carries a payload
big_enum!(E127; W126;
 V0 V1 V2 V3 V4 V5 V6 V7 V8 V9 V10 V11 V12 V13 V14 V15 V16 V17 V18 V19 V20 V21 V22 V23 V24 V25 V26 V27 V28 V29 V30 V31
 V32 V33 V34 V35 V36 V37 V38 V39 V40 V41 V42 V43 V44 V45 V46 V47 V48 V49 V50 V51 V52 V53 V54 V55 V56 V57 V58 V59 V60 V61 V62 V63
 V64 V65 V66 V67 V68 V69 V70 V71 V72 V73 V74 V75 V76 V77 V78 V79 V80 V81 V82 V83 V84 V85 V86 V87 V88 V89 V90 V91 V92 V93 V94 V95
 V96 V97 V98 V99 V100 V101 V102 V103 V104 V105 V106 V107 V108 V109 V110 V111 V112 V113 V114 V115 V116 V117 V118 V119 V120 V121 V122 V123 V124 V125);
big_enum!(E128; W127;
 V0 V1 V2 V3 V4 V5 V6 V7 V8 V9 V10 V11 V12 V13 V14 V15 V16 V17 V18 V19 V20 V21 V22 V23 V24 V25 V26 V27 V28 V29 V30 V31
 V32 V33 V34 V35 V36 V37 V38 V39 V40 V41 V42 V43 V44 V45 V46 V47 V48 V49 V50 V51 V52 V53 V54 V55 V56 V57 V58 V59 V60 V61 V62 V63
 V64 V65 V66 V67 V68 V69 V70 V71 V72 V73 V74 V75 V76 V77 V78 V79 V80 V81 V82 V83 V84 V85 V86 V87 V88 V89 V90 V91 V92 V93 V94 V95
 V96 V97 V98 V99 V100 V101 V102 V103 V104 V105 V106 V107 V108 V109 V110 V111 V112 V113 V114 V115 V116 V117 V118 V119 V120 V121 V122 V123 V124 V125 V126);
big_enum!(E129; W128;
 V0 V1 V2 V3 V4 V5 V6 V7 V8 V9 V10 V11 V12 V13 V14 V15 V16 V17 V18 V19 V20 V21 V22 V23 V24 V25 V26 V27 V28 V29 V30 V31
 V32 V33 V34 V35 V36 V37 V38 V39 V40 V41 V42 V43 V44 V45 V46 V47 V48 V49 V50 V51 V52 V53 V54 V55 V56 V57 V58 V59 V60 V61 V62 V63
 V64 V65 V66 V67 V68 V69 V70 V71 V72 V73 V74 V75 V76 V77 V78 V79 V80 V81 V82 V83 V84 V85 V86 V87 V88 V89 V90 V91 V92 V93 V94 V95
 V96 V97 V98 V99 V100 V101 V102 V103 V104 V105 V106 V107 V108 V109 V110 V111 V112 V113 V114 V115 V116 V117 V118 V119 V120 V121 V122 V123 V124 V125 V126 V127);

struct Runner<'a> {
    ctx: &'a Ctx,
    types: u64,
    tight_types: u64,
    evals: u64,
}

impl Runner<'_> {
    fn chk<T: Serialize + MaxSize + Vals>(&mut self, name: &str, tight: bool) {
        self.types += 1;
        let max = T::POSTCARD_MAX_SIZE;
        let mut vals = T::vals();
        vals.push(T::maxer());
        let mut longest = 0usize;
        for (i, v) in vals.iter().enumerate() {
            self.evals += 1;
            match trap(|| serialized_size(v)) {
                Ok(Ok(n)) => {
                    longest = longest.max(n);
                    if n > max {
                        self.ctx.violation(
                            &format!("max-size-exceeded:{name}"),
                            format!("a value of {name} encodes to {n} bytes, POSTCARD_MAX_SIZE = {max}"),
                            i as u64,
                            json!({"type": name, "value_index": i, "encoding": postcard::to_allocvec(v).ok().map(|b| vmodel::hex(&b[..b.len().min(64)]))}),
                        );
                    }
                }
                other => self.ctx.violation(&format!("max-size-error:{name}"), format!("{:?}", other), i as u64, json!({"type": name})),
            }
        }
        if tight {
            self.tight_types += 1;
            if longest != max {
                self.ctx.violation(
                    &format!("max-size-not-tight:{name}"),
                    format!("{name}: POSTCARD_MAX_SIZE = {max} but the longest enumerated encoding is {longest} bytes"),
                    0,
                    json!({"type": name, "max": max, "longest": longest}),
                );
            }
        }
    }
}

macro_rules! chk_all {
    ($r:ident, $tight:expr; $($t:ty),* $(,)?) => { $( $r.chk::<$t>(stringify!($t), $tight); )* };
}

pub fn run(ctx: &Ctx) {
    let mut r = Runner { ctx, types: 0, tight_types: 0, evals: 0 };
    // tight class: integers, floats, bool, char, arrays, tuples, options, fixed-capacity strings/vectors
    chk_all!(r, true;
        bool, u8, u16, u32, u64, u128, usize, i8, i16, i32, i64, i128, isize, f32, f64, char, (),
        NonZeroU8, NonZeroU16, NonZeroU32, NonZeroU64, NonZeroU128, NonZeroUsize,
        NonZeroI8, NonZeroI16, NonZeroI32, NonZeroI64, NonZeroI128, NonZeroIsize,
        Option<u8>, Option<u16>, Option<i32>, Option<u64>, Option<i128>, Option<char>, Option<bool>, Option<()>, Option<Option<u16>>, Option<[u8; 3]>,
        [u8; 0], [u8; 1], [u8; 3], [u16; 0], [u16; 1], [u16; 3], [i32; 3], [u64; 1], [i128; 3], [char; 3], [bool; 3], [(); 3], [Option<u16>; 3], [[u8; 3]; 3],
        (u8,), (u16,), (i128,), (char,), ((),), (u8, u16), (i32, u64), (char, bool), ((), Option<u16>), (u8, u16, i32), (u64, i128, char),
        (u8, u16, i32, u64), (bool, (), Option<u16>, [u8; 3]), (u8, u16, i32, u64, i128), (u8, u16, i32, u64, i128, char), (char, bool, (), Option<u16>, [u8; 3], u8),
        heapless::Vec<u8, 0>, heapless::Vec<u8, 1>, heapless::Vec<u8, 127>, heapless::Vec<u8, 128>, heapless::Vec<u8, 16383>, heapless::Vec<u8, 16384>,
        heapless::Vec<u16, 0>, heapless::Vec<u16, 1>, heapless::Vec<u16, 127>, heapless::Vec<u16, 128>,
        heapless::Vec<i32, 1>, heapless::Vec<i32, 128>, heapless::Vec<u64, 127>, heapless::Vec<i128, 128>, heapless::Vec<char, 127>, heapless::Vec<bool, 128>,
        heapless::Vec<(), 128>, heapless::Vec<Option<u16>, 127>, heapless::Vec<[u8; 3], 128>, heapless::Vec<char, 16383>, heapless::Vec<u16, 16384>,
        heapless::String<0>, heapless::String<1>, heapless::String<127>, heapless::String<128>, heapless::String<16383>, heapless::String<16384>,
    );
    // safe (upper bound) class
    chk_all!(r, false;
        Result<u8, u16>, Result<u64, ()>, Result<(), i128>, Result<char, [u8; 3]>,
        Range<u8>, Range<u16>, Range<i32>, Range<u64>, Range<i128>, Range<char>,
        RangeInclusive<u8>, RangeInclusive<u16>, RangeInclusive<i32>, RangeInclusive<u64>, RangeInclusive<i128>,
        RangeFrom<u8>, RangeFrom<u16>, RangeFrom<i32>, RangeFrom<u64>, RangeFrom<i128>,
        RangeTo<u8>, RangeTo<u16>, RangeTo<i32>, RangeTo<u64>, RangeTo<i128>,
        Box<u16>, Box<i128>, Box<Option<u16>>, Rc<u16>, Rc<u64>, Rc<[u8; 3]>, Arc<u16>, Arc<i32>, Arc<char>,
        PhantomData<u64>, PhantomData<String>,
        DUnit, DNew, DTup, DNamed, DEmpty, DGen<u8>, DGen<i128>, DGen<[u8; 3]>, DGen<DEnum>, DNest,
        DEnum, DOne, DTwo, E127, E128, E129, Option<DEnum>, [DEnum; 3], (DEnum, DNamed), heapless::Vec<DEnum, 3>,
    );
    // references: &T and &mut T share T's constant
    let x: &'static u64 = Box::leak(Box::new(u64::MAX));
    r.evals += 2;
    if <&u64 as MaxSize>::POSTCARD_MAX_SIZE < serialized_size(&x).unwrap_or(usize::MAX) || <&mut i128 as MaxSize>::POSTCARD_MAX_SIZE < serialized_size(&i128::MIN).unwrap_or(usize::MAX) {
        ctx.violation("max-size-exceeded:reference", "reference types under-estimate".into(), 0, json!({"type": "&u64 / &mut i128"}));
    }
    r.types += 2;
    // thorough: the ENTIRE domains of the 32-bit leaves, inside the composite shapes whose bound is a sum
    // or maximum of the leaf's (every u32 / i32 / f32 bit pattern / char, alone, in an Option, in a pair and
    // in a Result)
    if !ctx.quick() {
        use rayon::prelude::*;
        use std::sync::atomic::{AtomicU64, Ordering};
        let n = AtomicU64::new(0);
        fn len_of<T: Serialize>(v: &T) -> usize {
            let mut buf = [0u8; 32];
            postcard::to_slice(v, &mut buf).map(|o| o.len()).unwrap_or(usize::MAX)
        }
        macro_rules! whole {
            ($name:literal, $t:ty, $mk:expr) => {{
                let (m0, m1, m2, m3) = (<$t as MaxSize>::POSTCARD_MAX_SIZE, <Option<$t> as MaxSize>::POSTCARD_MAX_SIZE, <($t, u8) as MaxSize>::POSTCARD_MAX_SIZE, <Result<$t, u64> as MaxSize>::POSTCARD_MAX_SIZE);
                (0u32..65536).into_par_iter().for_each(|hi| {
                  let mut local = 0u64;
                  for lo in 0u32..65536 {
                    let bits = (hi << 16) | lo;
                    let mk = $mk;
                    let v: Option<$t> = mk(bits);
                    if let Some(v) = v {
                        let l = [len_of(&v), len_of(&Some(v)), len_of(&(v, 255u8)), len_of(&Ok::<$t, u64>(v))];
                        if l[0] > m0 || l[1] > m1 || l[2] > m2 || l[3] > m3 {
                            ctx.violation(concat!("max-size-exceeded:whole-domain:", $name), format!("{} value with bit pattern {:#x}: encoded lengths {:?} against maxima {:?}", $name, bits, l, [m0, m1, m2, m3]), bits as u64, json!({"type": $name, "bits": bits}));
                        }
                        local += 4;
                    }
                  }
                  n.fetch_add(local, Ordering::Relaxed);
                });
            }};
        }
        whole!("u32", u32, |b: u32| Some(b));
        whole!("i32", i32, |b: u32| Some(b as i32));
        whole!("f32", f32, |b: u32| Some(f32::from_bits(b)));
        whole!("char", char, char::from_u32);
        let n = n.load(Ordering::Relaxed);
        r.evals += n;
        ctx.class("whole-domain:u32,i32,f32,char x {T, Option<T>, (T,u8), Result<T,u64>}", n);
    }
    ctx.add_evals(r.evals);
    ctx.add_nontrivial(r.evals);
    ctx.class("types", r.types);
    ctx.class("tight-class-types", r.tight_types);
    let mut ev = ctx.ev.lock().unwrap();
    ev.bound("types", json!(r.types));
    ev.bound("tight_types", json!(r.tight_types));
    ev.rule = "every MaxSize impl (built-ins over parameter types {u8,u16,i32,u64,i128,char,bool,(),Option<u16>,[u8;3]}, heapless capacities at varint boundaries, derive from the LOCAL postcard-derive incl. enums with 1,2,6,127,128,129 variants whose highest-index variant carries a payload) x the complete product of per-field extreme values (whole domain for 8/16-bit); serialized_size(v) <= POSTCARD_MAX_SIZE for every value; for the tight class the maximum over the enumeration equals the constant".into();
    ev.sample(json!({"type": "E128 (128 variants, last carries u8)", "value": "W127(255)", "encoding_len": 3}));
    ev.sample(json!({"type": "heapless::String<16384>", "value": "4096 x U+1F600", "encoding_len": 16387}));
    ev.assumptions = vec!["encoded length of every leaf is monotone in magnitude (varint) or constant, so the extreme product contains a maximiser of the whole domain".into()];
}
