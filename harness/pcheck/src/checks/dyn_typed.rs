//! C17 on a typed corpus with the real #[derive(Schema)] / built-in Schema impls.

use crate::checks::schema_typed::*;
use crate::corpus::Dom;
use crate::rt::{hex, trap, Ctx};
use postcard_dyn::{from_slice_dyn, to_stdvec_dyn};
use postcard_schema::schema::owned::OwnedDataModelType;
use postcard_schema::Schema;
use serde::Serialize;
use serde_json::json;
use std::collections::BTreeMap;

fn chk<T: Serialize + Schema>(ctx: &Ctx, name: &'static str, vals: Vec<T>, n: &mut u64) {
    let schema = OwnedDataModelType::from(T::SCHEMA);
    for (i, v) in vals.iter().enumerate() {
        let j = match serde_json::to_value(v) {
            Ok(j) => j,
            Err(_) => continue,
        };
        // the static encoding is the yardstick here (C01/C02 decide whether it is right)
        let bytes = match trap(|| postcard::to_allocvec(v)) {
            Ok(Ok(b)) => b,
            _ => continue,
        };
        *n += 2;
        let case = || json!({"type": name, "json": j, "static_bytes": hex(&bytes)});
        match trap(|| to_stdvec_dyn(&schema, &j)) {
            Ok(Ok(b)) if b == bytes => {}
            other => ctx.violation(&format!("dyn-typed-encode:{name}"), format!("to_stdvec_dyn gave {:?}", other.map(|r| r.map(|b| hex(&b)))), i as u64, case()),
        }
        match trap(|| from_slice_dyn(&schema, &bytes)) {
            Ok(Ok(g)) if g == j => {}
            other => ctx.violation(&format!("dyn-typed-decode:{name}"), format!("from_slice_dyn gave {:?}", other), i as u64, case()),
        }
    }
}

macro_rules! dom_all {
    ($ctx:ident, $n:ident; $($t:ty),* $(,)?) => { $( chk::<$t>($ctx, stringify!($t), <$t as Dom>::dom(), &mut $n); )* };
}

pub fn run(ctx: &Ctx) {
    let mut n = 0u64;
    dom_all!(ctx, n;
        bool, u8, u16, u32, u64, i8, i16, i32, i64, String,
        Option<u8>, Option<i16>, Option<String>, Result<u32, String>,
        Vec<u8>, Vec<i16>, Vec<(u8, u16)>, Vec<String>, Vec<Vec<u8>>, Vec<Option<i32>>,
        (u8, u16), (i8, i64, String), [u16; 3], [i64; 4],
        BTreeMap<String, u16>, BTreeMap<String, Vec<u8>>,
        SNamed, SGen<u8>, SGen<i16>, SGen<String>,
    );
    // every JSON-unambiguous composition W1<W2<L>> (generated lists: 140 types; 441 with the cargo
    // feature `composed-types` that the thorough tier builds with)
    crate::composed_types_c17!(dom_all!(ctx, n;));
    chk::<EDisc>(ctx, "EDisc(explicit discriminants)", vec![EDisc::Reset, EDisc::Read, EDisc::Write, EDisc::Last], &mut n);
    chk::<EDiscPayload>(ctx, "EDiscPayload(explicit discriminants)", vec![EDiscPayload::Data(7), EDiscPayload::Idle, EDiscPayload::Named { x: 300 }, EDiscPayload::Pair(1, true)], &mut n);
    chk::<SUnit>(ctx, "SUnit", vec![SUnit], &mut n);
    chk::<SNew>(ctx, "SNew", i16::dom().into_iter().map(SNew).collect(), &mut n);
    chk::<STup>(ctx, "STup", <(u8, i64, String)>::dom().into_iter().map(|(a, b, c)| STup(a, b, c)).collect(), &mut n);
    chk::<SNamed0>(ctx, "SNamed0", vec![SNamed0 {}], &mut n);
    let es: Vec<SEnum> = vec![SEnum::A, SEnum::B(-300), SEnum::C(255, i32::MIN), SEnum::D { x: u64::MAX, y: Some(true) }, SEnum::D { x: 0, y: None }, SEnum::F {}, SEnum::G(SNew(7)), SEnum::H(vec![1, 300]), SEnum::I { only: 300 }, SEnum::J { zeta: 1, alpha: true }, SEnum::J { zeta: 2, alpha: false }];
    chk::<SEnum>(ctx, "SEnum", es.clone(), &mut n);
    chk::<Vec<SEnum>>(ctx, "Vec<SEnum>", vec![vec![], es.clone()], &mut n);
    // enums with more than 128 variants: two-byte discriminants for unit and data-carrying variants
    chk::<SBig>(ctx, "SBig(130 variants)", SBig::all(), &mut n);
    chk::<(SBig, u8)>(ctx, "(SBig, u8)", SBig::all().into_iter().map(|e| (e, 5u8)).collect(), &mut n);
    chk::<Vec<SBig>>(ctx, "Vec<SBig>", vec![SBig::all()], &mut n);
    chk::<SOuter>(
        ctx,
        "SOuter",
        vec![SOuter::Leaf(SEnum::A), SOuter::Pair(SEnum::B(1), SNew(-1)), SOuter::Rec { e: SEnum::F {}, list: es.clone(), m: [("k".to_string(), SEnum::A)].into_iter().collect() }],
        &mut n,
    );
    ctx.add_evals(n);
    ctx.add_nontrivial(n);
    ctx.class("typed-corpus-comparisons", n);
    ctx.class("composed-types(generated W1<W2<L>> list)", crate::checks::typed_gen::COMPOSED_C17 as u64);
}
