//! C05 bounded-buffer serialisation: exact capacity threshold, never out of bounds.

use crate::framing::*;
use crate::rt::{hex, set_case, trap, with_arena, Ctx};
use rayon::prelude::*;
use serde_json::json;
use std::sync::atomic::{AtomicU64, Ordering};
use vmodel::glue::AsData;
use vmodel::shape::*;

const CANARY: u8 = 0xA5;

/// the real plain encoding (what unbounded serialisation produces); None if the encoder refuses
pub fn real_plain(v: &Val) -> Option<Vec<u8>> {
    trap(|| postcard::to_allocvec(&AsData(v))).ok()?.ok()
}

/// the real plain decoding of a byte string under a shape: (value, consumed) or the error
pub fn real_decode(s: &Shape, bytes: &[u8]) -> Result<(Val, usize), postcard::Error> {
    match trap(|| crate::dynval::with_shape(s, || postcard::take_from_bytes::<crate::dynval::Dyn>(bytes).map(|(d, rem)| (d.0, bytes.len() - rem.len())))) {
        Ok(r) => r,
        Err(_) => Err(postcard::Error::DeserializeBadEncoding),
    }
}

/// (shape, values) corpus shared by the framing checks
pub fn value_corpus(k: usize, cap: usize, per_shape_limit: usize) -> Vec<(Shape, Vec<Val>)> {
    let en = ShapeEnum::new(k, 3);
    let mut shapes = en.upto(k);
    let small = en.upto(k.min(2));
    for s in &small {
        shapes.extend(index_variations(s));
    }
    let dom = Domain { cap, long: false };
    let mut out: Vec<(Shape, Vec<Val>)> = shapes
        .into_iter()
        .map(|s| {
            let level = if s.nodes() <= 1 { 1 } else { 2 };
            let mut v = dom.values(&s, level);
            if v.len() > per_shape_limit {
                // keep a deterministic spread: first, last and evenly spaced
                let n = v.len();
                let mut keep = vec![];
                for i in 0..per_shape_limit {
                    keep.push(v[i * (n - 1) / (per_shape_limit - 1)].clone());
                }
                v = keep;
            }
            (s, v)
        })
        .collect();
    // byte arrays at COBS / length-varint boundaries, zero-free and with zeros
    let mut bv = vec![];
    // (252 and 506 make the PLAIN encoding - 2-byte length prefix included - exactly 254 and 508 bytes)
    for len in [0usize, 1, 126, 127, 128, 251, 252, 253, 254, 255, 506, 507, 508, 509] {
        bv.push(Val::Bytes(vec![0x11; len]));
        if len > 2 {
            let mut z = vec![0x22; len];
            z[len / 2] = 0;
            bv.push(Val::Bytes(z));
        }
    }
    out.push((Shape::Bytes, bv));
    // long runs of single-byte items (each goes through try_push, not a block write)
    out.push((Shape::Seq(Box::new(Shape::U8)), vec![Val::Seq((0..40u8).map(Val::U8).collect()), Val::Seq(vec![Val::U8(0); 17])]));
    out.push((Shape::Tuple(vec![Shape::Bool; 20]), vec![Val::Tuple((0..20).map(|i| Val::Bool(i % 3 == 0)).collect())]));
    out.push((Shape::Seq(Box::new(Shape::Option(Box::new(Shape::I8)))), vec![Val::Seq((0..24).map(|i| if i % 5 == 0 { Val::Some(Box::new(Val::I8(-1))) } else { Val::None }).collect())]));
    // mixed delivery: a run of single-byte items (try_push) and a block write (try_extend) that together reach or
    // cross a 254-byte COBS block boundary, in both orders (round-8 seeds C06-i / C20-i: a modifier whose bulk path
    // and byte path keep separate bookkeeping)
    let mut mixed_a = vec![];
    let mut mixed_b = vec![];
    // (only for the framing checks, which pass cap >= 256: C11 enumerates every piece-wise delivery of each value and
    // must not receive these long values)
    for p in if cap >= 256 { vec![200usize, 251, 253] } else { vec![] } {
        for e in [1usize, 50, 52, 100] {
            let bytes: Vec<Val> = (0..p).map(|i| Val::U8(1 + (i % 200) as u8)).collect();
            mixed_a.push(Val::Tuple(vec![Val::Seq(bytes.clone()), Val::Str("x".repeat(e))]));
            mixed_b.push(Val::Tuple(vec![Val::Str("y".repeat(p)), Val::Seq(bytes[..e].to_vec())]));
        }
    }
    if !mixed_a.is_empty() {
        out.push((Shape::Tuple(vec![Shape::Seq(Box::new(Shape::U8)), Shape::Str]), mixed_a));
        out.push((Shape::Tuple(vec![Shape::Str, Shape::Seq(Box::new(Shape::U8))]), mixed_b));
    }
    out
}

macro_rules! hvec_caps {
    ($f:ident; $($b:literal)*) => { $( $f!($b); )* };
}

pub fn run(ctx: &Ctx) {
    let corpus = value_corpus(3, 256, if ctx.quick() { 24 } else { 40 });
    let framings = if ctx.quick() { quick_framings() } else { all_framings() };
    let calls = AtomicU64::new(0);
    let ok_calls = AtomicU64::new(0);
    let err_calls = AtomicU64::new(0);
    let hcalls = AtomicU64::new(0);
    let nvals: u64 = corpus.iter().map(|(_, v)| v.len() as u64).sum();
    corpus.par_iter().enumerate().for_each(|(si, (s, vals))| {
        for (vi, v) in vals.iter().enumerate() {
            // the reference for "the bytes unbounded serialisation produces" is the real growable-vector encoder
            let plain = match real_plain(v) {
                Some(p) => p,
                None => continue,
            };
            let d = AsData(v);
            // size-measuring call
            match trap(|| postcard::experimental::serialized_size(&d)) {
                Ok(Ok(n)) if n == plain.len() => {}
                other => ctx.violation("size", format!("serialized_size {:?}, length is {}", other, plain.len()), si as u64, json!({"shape": s, "value": v})),
            }
            // the unbounded storages never fail and produce the same bytes: Extend sinks, std vector
            for (name, got) in [
                ("to_extend(Vec)", trap(|| postcard::to_extend(&d, Vec::<u8>::new()))),
                ("to_extend(VecDeque)", trap(|| postcard::to_extend(&d, std::collections::VecDeque::<u8>::new()).map(|q| q.into_iter().collect::<Vec<u8>>()))),
                ("to_stdvec", trap(|| postcard::to_stdvec(&d))),
            ] {
                match got {
                    Ok(Ok(b)) if b == plain => {}
                    other => ctx.violation("unbounded-storage", format!("{name} gave {:?}, growable vector gives {}", other.map(|r| r.map(|b| hex(&b))), hex(&plain)), si as u64, json!({"shape": s, "value": v, "storage": name})),
                }
            }
            for (fi, f) in framings.iter().enumerate() {
                let want = f.reference(&plain);
                let n = want.len();
                // every capacity up to len+2, plus generous slack (a writer that scribbles behind its output
                // is only visible when room is left there)
                for c in (0..=n + 2).chain([n + 15, n + 16, n + 17, n + 40]) {
                    for at_end in [true, false] {
                        calls.fetch_add(1, Ordering::Relaxed);
                        let order = (si as u64) << 32 | (vi as u64) << 20 | (fi as u64) << 16 | (c as u64) << 1 | at_end as u64;
                        let case = || json!({"shape": s, "value": v, "framing": f.name(), "capacity": c, "guard_at_end": at_end, "output_len": n});
                        let r = with_arena(n + 128, |a| {
                            let usable = a.usable();
                            a.window().fill(CANARY);
                            let mut cs = Vec::with_capacity(256);
                            let _ = serde_json::to_writer(&mut cs, &case());
                            set_case(&cs);
                            let (res, start_off) = {
                                let buf = if at_end { a.flush_end(c) } else { a.flush_start(c) };
                                let bp = buf.as_ptr() as usize;
                                let r = trap(|| f.to_slice(&d, buf).map(|o| (o.as_ptr() as usize - bp, o.len(), o.to_vec())));
                                (r, if at_end { usable - c } else { 0 })
                            };
                            let w = a.window();
                            // canaries outside [start_off, start_off + c) must be intact
                            let outside_ok = w[..start_off].iter().all(|b| *b == CANARY) && w[start_off + c..].iter().all(|b| *b == CANARY);
                            let tail_ok = |used: usize| w[start_off + used..start_off + c].iter().all(|b| *b == CANARY);
                            match res {
                                Err(p) => Err(("panic", format!("panicked: {p}"))),
                                Ok(Ok((off, len, bytes))) => {
                                    if c < n {
                                        Err(("threshold", format!("succeeded with capacity {} < output length {}", c, n)))
                                    } else if off != 0 || len != n || bytes != want {
                                        Err(("bytes", format!("returned off {} len {} bytes {}, want {}", off, len, hex(&bytes), hex(&want))))
                                    } else if !tail_ok(n) {
                                        Err(("untouched", "bytes after the returned length were modified".into()))
                                    } else if !outside_ok {
                                        Err(("oob-write", "canary outside the buffer was overwritten".into()))
                                    } else {
                                        ok_calls.fetch_add(1, Ordering::Relaxed);
                                        Ok(())
                                    }
                                }
                                Ok(Err(e)) => {
                                    if c >= n {
                                        Err(("threshold", format!("failed with {:?} although capacity {} >= output length {}", e, c, n)))
                                    } else if e != postcard::Error::SerializeBufferFull {
                                        Err(("error-kind", format!("error {:?}, expected SerializeBufferFull", e)))
                                    } else if !outside_ok {
                                        Err(("oob-write", "canary outside the buffer was overwritten".into()))
                                    } else {
                                        err_calls.fetch_add(1, Ordering::Relaxed);
                                        Ok(())
                                    }
                                }
                            }
                        });
                        if let Err((class, what)) = r {
                            ctx.violation(class, what, order, case());
                        }
                    }
                }
                // fixed-capacity vectors: every capacity of the table
                macro_rules! one_cap {
                    ($b:literal) => {{
                        if ($b as usize) + 3 >= n && ($b as usize) <= n + 3 || ($b as usize) <= 2 {
                            hcalls.fetch_add(1, Ordering::Relaxed);
                            let r = trap(|| f.to_hvec::<_, $b>(&d));
                            let bad = match &r {
                                Err(p) => Some(("panic", format!("to_vec<{}> panicked: {p}", $b))),
                                Ok(Ok(o)) => {
                                    if ($b as usize) < n {
                                        Some(("threshold", format!("to_vec<{}> succeeded, output length {}", $b, n)))
                                    } else if o.as_slice() != &want[..] {
                                        Some(("bytes", format!("to_vec<{}> bytes {} want {}", $b, hex(o), hex(&want))))
                                    } else {
                                        None
                                    }
                                }
                                Ok(Err(e)) => {
                                    if ($b as usize) >= n {
                                        Some(("threshold", format!("to_vec<{}> failed with {:?}, output length {}", $b, e, n)))
                                    } else if *e != postcard::Error::SerializeBufferFull {
                                        Some(("error-kind", format!("to_vec<{}> error {:?}", $b, e)))
                                    } else {
                                        None
                                    }
                                }
                            };
                            if let Some((class, what)) = bad {
                                ctx.violation(&format!("hvec-{class}"), what, (si as u64) << 32 | $b as u64, json!({"shape": s, "value": v, "framing": f.name(), "capacity": $b, "output_len": n}));
                            }
                        }
                    }};
                }
                hvec_caps!(one_cap; 0 1 2 3 4 5 6 7 8 9 10 11 12 13 14 15 16 126 127 128 129 130 253 254 255 256 257 258 259 508 509 510 511 512);
            }
        }
    });
    let c = calls.load(Ordering::Relaxed);
    let h = hcalls.load(Ordering::Relaxed);
    ctx.add_evals(c + h);
    ctx.add_nontrivial(c + h);
    ctx.class("slice:ok", ok_calls.load(Ordering::Relaxed));
    ctx.class("slice:buffer-full", err_calls.load(Ordering::Relaxed));
    ctx.class("hvec:calls", h);
    ctx.require_class("slice:ok");
    ctx.require_class("slice:buffer-full");
    let mut ev = ctx.ev.lock().unwrap();
    ev.bound("values", json!(nvals));
    ev.bound("framings", json!(framings.iter().map(|f| f.name()).collect::<Vec<_>>()));
    ev.bound("capacities", json!("every c in 0..=len+2 (slice, two guard placements); heapless const capacities {0..16,126..130,253..259,508..512} within 3 of each output length (and 0..2 always)"));
    ev.rule = "fault point = capacity at which the buffer runs out: every (value, framing, capacity 0..len+2, guard placement) on a canary-filled arena whose usable window is bracketed by PROT_NONE pages; Ok iff capacity >= reference output length; bytes, position, untouched tail and canaries checked; heapless vectors over a macro-instantiated capacity table. Each (value,framing,capacity,placement) is a distinct case.".into();
    ev.sample(json!({"value": "Bytes(254 x 0x11)", "framing": "cobs", "capacity": 258, "expect": "Err(SerializeBufferFull); capacity 259 -> Ok"}));
    ev.sample(json!({"shape": corpus[corpus.len() / 2].0, "value": corpus[corpus.len() / 2].1.first(), "framing": "crc:CRC_32_ISCSI", "capacities": "0..=len+2"}));
    ev.assumptions = vec!["finite value corpus (shapes <= 3 nodes, reduced domains, boundary byte arrays)".into(), "unbounded storages (growable vector, Extend sink) are covered by C01".into()];
}
