//! C11 reader/writer transports: deviation-bounded exploration of environment answers.

use crate::checks::c05::{real_decode, real_plain, value_corpus};
use crate::dynval::{with_shape_borrows, Dyn};
use crate::rt::{hex, set_case, trap, with_arena, Ctx};
use rayon::prelude::*;
use serde_json::{json, Value};
use std::cell::RefCell;
use std::rc::Rc;
use std::sync::atomic::{AtomicU64, Ordering};
use vmodel::glue::{AsData, Borrows};
use vmodel::shape::*;
use vmodel::spec::spec_decode;

#[derive(Clone, Copy, Debug, PartialEq, Eq)]
pub enum Ans {
    /// deliver / accept everything asked for
    Full,
    One,
    AllButOne,
    Interrupted,
    HardError,
    Zero,
}

#[derive(Default)]
pub struct Sched {
    prefix: Vec<u8>,
    /// (number of alternatives, choice taken, label)
    pub points: Vec<(u8, u8)>,
    pub answers: Vec<Ans>,
    pub diverged: bool,
    pub fatal: bool,
}

impl Sched {
    fn choose(&mut self, enabled: &[Ans]) -> Ans {
        let i = self.points.len();
        let c = if i < self.prefix.len() {
            let c = self.prefix[i];
            if c as usize >= enabled.len() {
                self.diverged = true;
                0
            } else {
                c
            }
        } else {
            0
        };
        self.points.push((enabled.len() as u8, c));
        let a = enabled[c as usize];
        self.answers.push(a);
        if matches!(a, Ans::HardError | Ans::Zero) {
            self.fatal = true;
        }
        a
    }
}

type Sh = Rc<RefCell<Sched>>;

fn rw_enabled(len: usize, avail: usize, std_io: bool, allow_zero: bool) -> Vec<Ans> {
    let mut e = vec![Ans::Full];
    let n = len.min(avail);
    if n > 1 {
        e.push(Ans::One);
    }
    if n > 2 {
        e.push(Ans::AllButOne);
    }
    if std_io {
        e.push(Ans::Interrupted);
    }
    e.push(Ans::HardError);
    if allow_zero {
        e.push(Ans::Zero);
    }
    e
}

// ---- writers ----
pub struct EnvWriter {
    pub sched: Sh,
    pub received: Rc<RefCell<Vec<u8>>>,
    pub flushed: Rc<RefCell<u32>>,
}
impl std::io::Write for EnvWriter {
    fn write(&mut self, buf: &[u8]) -> std::io::Result<usize> {
        if buf.is_empty() {
            return Ok(0);
        }
        let a = self.sched.borrow_mut().choose(&rw_enabled(buf.len(), usize::MAX, true, true));
        let n = match a {
            Ans::Full => buf.len(),
            Ans::One => 1,
            Ans::AllButOne => buf.len() - 1,
            Ans::Interrupted => return Err(std::io::Error::from(std::io::ErrorKind::Interrupted)),
            Ans::HardError => return Err(std::io::Error::from(std::io::ErrorKind::BrokenPipe)),
            Ans::Zero => return Ok(0),
        };
        self.received.borrow_mut().extend_from_slice(&buf[..n]);
        Ok(n)
    }
    fn flush(&mut self) -> std::io::Result<()> {
        let a = self.sched.borrow_mut().choose(&[Ans::Full, Ans::HardError]);
        *self.flushed.borrow_mut() += 1;
        match a {
            Ans::Full => Ok(()),
            _ => Err(std::io::Error::from(std::io::ErrorKind::BrokenPipe)),
        }
    }
}
pub struct EnvEioWriter(EnvWriter);
impl embedded_io::ErrorType for EnvEioWriter {
    type Error = embedded_io::ErrorKind;
}
impl embedded_io::Write for EnvEioWriter {
    fn write(&mut self, buf: &[u8]) -> Result<usize, Self::Error> {
        if buf.is_empty() {
            return Ok(0);
        }
        // Ok(0) on a non-empty buffer is a contract violation for embedded-io writers: not an answer
        let a = self.0.sched.borrow_mut().choose(&rw_enabled(buf.len(), usize::MAX, false, false));
        let n = match a {
            Ans::Full => buf.len(),
            Ans::One => 1,
            Ans::AllButOne => buf.len() - 1,
            _ => return Err(embedded_io::ErrorKind::BrokenPipe),
        };
        self.0.received.borrow_mut().extend_from_slice(&buf[..n]);
        Ok(n)
    }
    fn flush(&mut self) -> Result<(), Self::Error> {
        let a = self.0.sched.borrow_mut().choose(&[Ans::Full, Ans::HardError]);
        *self.0.flushed.borrow_mut() += 1;
        match a {
            Ans::Full => Ok(()),
            _ => Err(embedded_io::ErrorKind::BrokenPipe),
        }
    }
}

// ---- readers ----
pub struct EnvReader {
    pub sched: Sh,
    pub data: Rc<Vec<u8>>,
    pub pos: Rc<RefCell<usize>>,
}
impl EnvReader {
    fn answer(&mut self, buf: &mut [u8], std_io: bool) -> Result<usize, bool> {
        if buf.is_empty() {
            return Ok(0);
        }
        let pos = *self.pos.borrow();
        let avail = self.data.len() - pos;
        if avail == 0 {
            return Ok(0); // genuine end of stream (not a choice)
        }
        let a = self.sched.borrow_mut().choose(&rw_enabled(buf.len(), avail, std_io, true));
        let n = match a {
            Ans::Full => buf.len().min(avail),
            Ans::One => 1,
            Ans::AllButOne => buf.len().min(avail) - 1,
            Ans::Interrupted => return Err(true),
            Ans::HardError => return Err(false),
            Ans::Zero => return Ok(0),
        };
        buf[..n].copy_from_slice(&self.data[pos..pos + n]);
        *self.pos.borrow_mut() += n;
        Ok(n)
    }
}
impl std::io::Read for EnvReader {
    fn read(&mut self, buf: &mut [u8]) -> std::io::Result<usize> {
        self.answer(buf, true).map_err(|intr| std::io::Error::from(if intr { std::io::ErrorKind::Interrupted } else { std::io::ErrorKind::BrokenPipe }))
    }
}
pub struct EnvEioReader(EnvReader);
impl embedded_io::ErrorType for EnvEioReader {
    type Error = embedded_io::ErrorKind;
}
impl embedded_io::Read for EnvEioReader {
    fn read(&mut self, buf: &mut [u8]) -> Result<usize, Self::Error> {
        self.0.answer(buf, false).map_err(|_| embedded_io::ErrorKind::BrokenPipe)
    }
}

/// plain readers delivering at most `1` bytes per call (no schedule exploration)
struct Dribble<'a>(&'a [u8], usize);
impl std::io::Read for Dribble<'_> {
    fn read(&mut self, buf: &mut [u8]) -> std::io::Result<usize> {
        let n = buf.len().min(self.0.len()).min(self.1);
        buf[..n].copy_from_slice(&self.0[..n]);
        self.0 = &self.0[n..];
        Ok(n)
    }
}
struct DribbleEio<'a>(&'a [u8], usize);
impl embedded_io::ErrorType for DribbleEio<'_> {
    type Error = embedded_io::ErrorKind;
}
impl embedded_io::Read for DribbleEio<'_> {
    fn read(&mut self, buf: &mut [u8]) -> Result<usize, Self::Error> {
        let n = buf.len().min(self.0.len()).min(self.1);
        buf[..n].copy_from_slice(&self.0[..n]);
        self.0 = &self.0[n..];
        Ok(n)
    }
}

// ---- explorer ----
pub struct Explorer<'a> {
    pub bound: usize,
    pub executions: u64,
    pub max_points: usize,
    pub run: &'a mut dyn FnMut(&[u8]) -> Vec<(u8, u8)>,
}
impl Explorer<'_> {
    pub fn explore(&mut self, prefix: Vec<u8>) {
        let points = (self.run)(&prefix);
        self.executions += 1;
        self.max_points = self.max_points.max(points.len());
        for i in prefix.len()..points.len() {
            let cost = points[..i].iter().filter(|p| p.1 != 0).count() + 1;
            if cost > self.bound {
                continue;
            }
            for alt in 1..points[i].0 {
                let mut p: Vec<u8> = points[..i].iter().map(|x| x.1).collect();
                p.push(alt);
                self.explore(p);
            }
        }
    }
}

fn sched_json(s: &Sched) -> Value {
    json!(s.answers.iter().map(|a| format!("{a:?}")).collect::<Vec<_>>())
}

#[derive(Clone, Copy, PartialEq)]
enum Kind {
    Std,
    Eio,
}

/// one writer execution under a schedule prefix
fn writer_exec(ctx: &Ctx, kind: Kind, v: &Val, e: &[u8], prefix: &[u8], order: u64) -> Vec<(u8, u8)> {
    let sched: Sh = Rc::new(RefCell::new(Sched { prefix: prefix.to_vec(), ..Default::default() }));
    let received = Rc::new(RefCell::new(vec![]));
    let flushed = Rc::new(RefCell::new(0u32));
    let w = EnvWriter { sched: sched.clone(), received: received.clone(), flushed: flushed.clone() };
    let d = AsData(v);
    let r = trap(|| match kind {
        Kind::Std => postcard::to_io(&d, w).map(|_| ()),
        Kind::Eio => postcard::to_eio(&d, EnvEioWriter(w)).map(|_| ()),
    });
    let s = sched.borrow();
    let rec = received.borrow();
    let case = || json!({"transport": if kind == Kind::Std { "std::io::Write" } else { "embedded_io::Write" }, "value": v, "schedule": sched_json(&s), "encoding": hex(e), "received": hex(&rec)});
    if s.diverged {
        ctx.machinery("schedule prefix diverged while replaying (harness nondeterminism)".into());
    }
    match r {
        Err(p) => ctx.violation("io-writer-panic", format!("panic: {p}"), order, case()),
        Ok(res) => {
            if !e.starts_with(&rec) {
                ctx.violation("io-writer-not-prefix", "bytes received by the writer are not a prefix of the plain encoding".into(), order, case());
            }
            match res {
                Ok(()) => {
                    if s.fatal {
                        ctx.violation("io-writer-error-swallowed", "a failing writer produced Ok".into(), order, case());
                    } else if rec[..] != e[..] {
                        ctx.violation("io-writer-incomplete", "Ok although the writer did not receive the whole encoding".into(), order, case());
                    } else if *flushed.borrow() == 0 {
                        ctx.violation("io-writer-no-flush", "Ok without flushing the writer".into(), order, case());
                    }
                }
                Err(_) => {
                    if !s.fatal {
                        ctx.violation("io-writer-spurious-error", "error although the writer never failed".into(), order, case());
                    }
                }
            }
        }
    }
    s.points.clone()
}

/// one reader execution: a sequence of messages on one stream, scratch chained
#[allow(clippy::too_many_arguments)]
fn reader_exec(ctx: &Ctx, kind: Kind, msgs: &[(Shape, Val, Vec<u8>, usize)], scratch_len: usize, prefix: &[u8], order: u64) -> Vec<(u8, u8)> {
    let mut stream = vec![];
    for m in msgs {
        stream.extend_from_slice(&m.2);
    }
    stream.push(0xEE); // sentinel byte after the last message: must never be requested
    let total_need: usize = msgs.iter().map(|m| m.3).sum();
    let sched: Sh = Rc::new(RefCell::new(Sched { prefix: prefix.to_vec(), ..Default::default() }));
    let pos = Rc::new(RefCell::new(0usize));
    let data = Rc::new(stream.clone());
    let case_base = json!({"transport": if kind == Kind::Std { "std::io::Read" } else { "embedded_io::Read" }, "messages": msgs.iter().map(|m| json!({"shape": m.0, "value": m.1})).collect::<Vec<_>>(), "scratch_len": scratch_len, "scratch_needed": total_need});
    let result = with_arena(scratch_len + 32, |a| {
        let mut cs = Vec::with_capacity(256);
        let _ = serde_json::to_writer(&mut cs, &case_base);
        set_case(&cs);
        for at_end in [true] {
            let _ = at_end;
        }
        let scratch: &mut [u8] = a.flush_end(scratch_len);
        scratch.fill(0xCC);
        let sbase = scratch.as_ptr() as usize;
        trap(|| -> Result<(), (String, String)> {
            let mut used_scratch = 0usize;
            let mut consumed = 0usize;
            macro_rules! drive {
                ($from:ident, $mk:expr) => {{
                    let mut state = ($mk, scratch);
                    for (mi, (shape, val, enc, need)) in msgs.iter().enumerate() {
                        let borrows = Borrows::default();
                        let r = with_shape_borrows(shape, &borrows, || postcard::$from::<Dyn, _>(state));
                        let fatal = sched.borrow().fatal;
                        match r {
                            Ok((Dyn(got), (rd, rest))) => {
                                if fatal {
                                    return Err(("io-reader-error-swallowed".into(), format!("message {mi}: Ok although the reader failed")));
                                }
                                if used_scratch + need > scratch_len {
                                    return Err(("io-reader-scratch-overrun".into(), format!("message {mi}: Ok although the scratch buffer is too small")));
                                }
                                if &got != val {
                                    return Err(("io-reader-value".into(), format!("message {mi}: got {:?}", got)));
                                }
                                consumed += enc.len();
                                if *pos.borrow() != consumed {
                                    return Err(("io-reader-consumption".into(), format!("message {mi}: reader delivered {} bytes, the messages so far are {} bytes", *pos.borrow(), consumed)));
                                }
                                // borrowed fields lie in pairwise disjoint parts of the scratch buffer, none of
                                // them inside the returned (unused) remainder, and all unused scratch comes back
                                let gotr: Vec<(usize, usize)> = borrows.ranges.borrow().iter().map(|(p, l)| (p.wrapping_sub(sbase), *l)).collect();
                                let rest_off = (rest.as_ptr() as usize).wrapping_sub(sbase);
                                if rest_off > scratch_len || rest_off + rest.len() > scratch_len {
                                    return Err(("io-reader-scratch-remainder".into(), format!("message {mi}: returned scratch at +{} len {} is not inside the {}-byte scratch", rest_off, rest.len(), scratch_len)));
                                }
                                for (i, (o, l)) in gotr.iter().enumerate() {
                                    if *l == 0 {
                                        continue;
                                    }
                                    if *o > scratch_len || o + l > scratch_len {
                                        return Err(("io-reader-borrow-placement".into(), format!("message {mi}: borrowed field at +{} len {} lies outside the scratch", o, l)));
                                    }
                                    if rest.len() > 0 && *o < rest_off + rest.len() && rest_off < o + l {
                                        return Err(("io-reader-borrow-placement".into(), format!("message {mi}: borrowed field at +{} len {} overlaps the returned scratch at +{} len {}", o, l, rest_off, rest.len())));
                                    }
                                    for (o2, l2) in gotr.iter().skip(i + 1) {
                                        if *l2 > 0 && o < &(o2 + l2) && o2 < &(o + l) {
                                            return Err(("io-reader-borrow-placement".into(), format!("message {mi}: borrowed fields at +{} len {} and +{} len {} overlap", o, l, o2, l2)));
                                        }
                                    }
                                }
                                // earlier messages' borrowed fields must not be overwritten either: everything handed
                                // out so far lies before (outside) the returned remainder, checked above per message
                                used_scratch += need;
                                if rest.len() != scratch_len - used_scratch {
                                    return Err(("io-reader-scratch-remainder".into(), format!("message {mi}: {} bytes of scratch returned, {} are unused", rest.len(), scratch_len - used_scratch)));
                                }
                                state = (rd, rest);
                            }
                            Err(_) => {
                                if !fatal && used_scratch + need <= scratch_len {
                                    return Err(("io-reader-spurious-error".into(), format!("message {mi}: error although the reader never failed and the scratch suffices")));
                                }
                                return Ok(());
                            }
                        }
                    }
                    Ok(())
                }};
            }
            let rd = EnvReader { sched: sched.clone(), data: data.clone(), pos: pos.clone() };
            match kind {
                Kind::Std => drive!(from_io, rd),
                Kind::Eio => drive!(from_eio, EnvEioReader(rd)),
            }
        })
    });
    let s = sched.borrow();
    if s.diverged {
        ctx.machinery("schedule prefix diverged while replaying (harness nondeterminism)".into());
    }
    let case = || {
        let mut c = case_base.clone();
        c["schedule"] = sched_json(&s);
        c
    };
    match result {
        Err(p) => ctx.violation("io-reader-panic", format!("panic: {p}"), order, case()),
        Ok(Err((class, what))) => ctx.violation(&class, what, order, case()),
        Ok(Ok(())) => {}
    }
    s.points.clone()
}

pub fn run(ctx: &Ctx) {
    let bound = if ctx.quick() { 3 } else { 4 };
    let full_limit = if ctx.quick() { 5 } else { 6 };
    // values: corpus of small shapes + hand-picked borrowed-heavy shapes
    let mut items: Vec<(Shape, Val)> = vec![];
    for (s, vals) in value_corpus(3, 64, if ctx.quick() { 4 } else { 10 }) {
        for v in vals {
            items.push((s.clone(), v));
        }
    }
    let b4 = Shape::Tuple(vec![Shape::Str, Shape::Bytes, Shape::U16, Shape::Str]);
    items.push((b4.clone(), Val::Tuple(vec![Val::Str("ab".into()), Val::Bytes(vec![1, 2, 3]), Val::U16(300), Val::Str("é".into())])));
    items.push((b4.clone(), Val::Tuple(vec![Val::Str("".into()), Val::Bytes(vec![]), Val::U16(0), Val::Str("x".into())])));
    let sf = Shape::Struct(vec![Shape::F32, Shape::Str, Shape::Char, Shape::F64, Shape::Bytes]);
    items.push((sf, Val::Struct(vec![Val::F32(0x3F80_0000), Val::Str("hey".into()), Val::Char('€'), Val::F64(1), Val::Bytes(vec![0, 0xFF])])));
    let ss = Shape::Seq(Box::new(Shape::Str));
    items.push((ss, Val::Seq(vec![Val::Str("a".into()), Val::Str("bc".into()), Val::Str("".into())])));
    items.push((Shape::Option(Box::new(Shape::Bytes)), Val::Some(Box::new(Val::Bytes(vec![7; 130])))));
    items.push((Shape::Map(Box::new(Shape::Str), Box::new(Shape::U32)), Val::Map(vec![(Val::Str("k".into()), Val::U32(70000)), (Val::Str("kk".into()), Val::U32(1))])));

    let execs = AtomicU64::new(0);
    let maxp = AtomicU64::new(0);
    let full_explored = AtomicU64::new(0);
    // reference = the slice path of the real crate: e = to_allocvec(v), expected value = from_bytes(e).
    // (the value slot of the tuple holds what slice decoding yields)
    let enc: Vec<(Shape, Val, Vec<u8>, usize)> = items
        .iter()
        .filter_map(|(s, v)| {
            let e = real_plain(v)?;
            let (sv, c) = real_decode(s, &e).ok()?;
            if c != e.len() {
                return None;
            }
            // bytes the message needs in the scratch buffer, from the field layout of the encoding
            let sd = spec_decode(s, &e);
            sd.result.as_ref().ok()?;
            let need: usize = sd.takes.iter().map(|t| t.len).sum();
            Some((s.clone(), sv, e, need))
        })
        .collect();
    // --- writers ---
    let originals: Vec<(Val, Vec<u8>)> = items.iter().filter_map(|(_, v)| real_plain(v).map(|e| (v.clone(), e))).collect();
    originals.par_iter().enumerate().for_each(|(i, (v, e))| {
        for kind in [Kind::Std, Kind::Eio] {
            let order = (i as u64) << 8;
            // probe the number of choice points with the default schedule
            let npoints = writer_exec(ctx, kind, v, e, &[], order).len();
            let b = if npoints <= full_limit { full_limit.max(bound) } else { bound };
            if npoints <= full_limit {
                full_explored.fetch_add(1, Ordering::Relaxed);
            }
            let mut run = |p: &[u8]| writer_exec(ctx, kind, v, e, p, order);
            let mut ex = Explorer { bound: b, executions: 0, max_points: 0, run: &mut run };
            ex.explore(vec![]);
            execs.fetch_add(ex.executions, Ordering::Relaxed);
            maxp.fetch_max(ex.max_points as u64, Ordering::Relaxed);
        }
    });
    let wexecs = execs.load(Ordering::Relaxed);
    // --- readers: single messages x every scratch size 0..need+1 ---
    enc.par_iter().enumerate().for_each(|(i, m)| {
        for kind in [Kind::Std, Kind::Eio] {
            for scratch_len in 0..=m.3 + 1 {
                let msgs = [m.clone()];
                let order = (1u64 << 40) | (i as u64) << 16 | scratch_len as u64;
                let npoints = reader_exec(ctx, kind, &msgs, scratch_len, &[], order).len();
                // scratch sweep is crossed with the full schedule space only at the two interesting sizes
                let interesting = scratch_len + 1 >= m.3;
                let b = if !interesting { 1 } else if npoints <= full_limit { full_limit.max(bound) } else { bound };
                if interesting && npoints <= full_limit {
                    full_explored.fetch_add(1, Ordering::Relaxed);
                }
                let mut run = |p: &[u8]| reader_exec(ctx, kind, &msgs, scratch_len, p, order);
                let mut ex = Explorer { bound: b, executions: 0, max_points: 0, run: &mut run };
                ex.explore(vec![]);
                execs.fetch_add(ex.executions, Ordering::Relaxed);
                maxp.fetch_max(ex.max_points as u64, Ordering::Relaxed);
            }
        }
    });
    // --- readers: sequences of 2..3 messages on one stream, scratch chained ---
    let seq_pool: Vec<&(Shape, Val, Vec<u8>, usize)> = enc.iter().filter(|m| m.3 > 0 && m.2.len() <= 24).take(if ctx.quick() { 6 } else { 10 }).chain(enc.iter().filter(|m| m.3 == 0 && !m.2.is_empty()).take(2)).collect();
    let mut seqs: Vec<Vec<(Shape, Val, Vec<u8>, usize)>> = vec![];
    for a in &seq_pool {
        for b in &seq_pool {
            seqs.push(vec![(*a).clone(), (*b).clone()]);
        }
    }
    for a in seq_pool.iter().take(3) {
        for b in seq_pool.iter().take(3) {
            for c in seq_pool.iter().take(3) {
                seqs.push(vec![(*a).clone(), (*b).clone(), (*c).clone()]);
            }
        }
    }
    let nseq = seqs.len();
    seqs.par_iter().enumerate().for_each(|(i, msgs)| {
        let need: usize = msgs.iter().map(|m| m.3).sum();
        for kind in [Kind::Std, Kind::Eio] {
            for scratch_len in [need, need + 1, need.saturating_sub(1), msgs[0].3] {
                let order = (2u64 << 40) | (i as u64) << 16 | scratch_len as u64;
                let mut run = |p: &[u8]| reader_exec(ctx, kind, msgs, scratch_len, p, order);
                let mut ex = Explorer { bound: if ctx.quick() { 2 } else { 3 }, executions: 0, max_points: 0, run: &mut run };
                ex.explore(vec![]);
                execs.fetch_add(ex.executions, Ordering::Relaxed);
                maxp.fetch_max(ex.max_points as u64, Ordering::Relaxed);
            }
        }
    });
    // --- readers: a stream that CLAIMS more than the scratch can hold (corrupt / hostile length prefix):
    // "a scratch buffer that is too small produces an error (never a panic)" and nothing is written outside it
    let hostile = AtomicU64::new(0);
    let claims: Vec<u128> = vec![5, 17, 1 << 14, 1 << 32, 1 << 47, 1 << 62, (1 << 63) - 1, 1 << 63, u64::MAX as u128 - (1 << 40), u64::MAX as u128 - 4096, u64::MAX as u128 - 15, u64::MAX as u128 - 1, u64::MAX as u128];
    claims.par_iter().enumerate().for_each(|(ci, claim)| {
        for shape in [Shape::Str, Shape::Bytes, Shape::Tuple(vec![Shape::U8, Shape::Str]), Shape::Seq(Box::new(Shape::Bytes))] {
            for scratch_len in [0usize, 4, 16] {
                for kind in [Kind::Std, Kind::Eio] {
                    for chunk in [1usize, usize::MAX] {
                        let mut stream: Vec<u8> = vec![];
                        if let Shape::Tuple(_) = shape {
                            stream.push(7);
                        }
                        if let Shape::Seq(_) = shape {
                            stream.push(1);
                        }
                        stream.extend(vmodel::spec::varint(*claim));
                        stream.extend_from_slice(&[0x61; 40]);
                        hostile.fetch_add(1, Ordering::Relaxed);
                        let case = json!({"transport": if kind == Kind::Std { "std::io::Read" } else { "embedded_io::Read" }, "shape": shape, "claimed_length": claim.to_string(), "scratch_len": scratch_len, "reads": if chunk == 1 { "1 byte at a time" } else { "whole" }});
                        let r = with_arena(64, |a| {
                            let mut cs = Vec::with_capacity(128);
                            let _ = serde_json::to_writer(&mut cs, &case);
                            set_case(&cs);
                            let scratch = a.flush_end(scratch_len);
                            trap(|| {
                                crate::dynval::with_shape(&shape, || match kind {
                                    Kind::Std => postcard::from_io::<Dyn, _>((Dribble(&stream, chunk), scratch)).map(|_| ()),
                                    Kind::Eio => postcard::from_eio::<Dyn, _>((DribbleEio(&stream, chunk), scratch)).map(|_| ()),
                                })
                            })
                        });
                        match r {
                            Err(p) => ctx.violation("io-reader-hostile-length-panic", format!("panic: {p}"), ci as u64, case),
                            Ok(Ok(())) if *claim as usize > scratch_len => ctx.violation("io-reader-scratch-overrun", "Ok although the claimed length exceeds the scratch buffer".into(), ci as u64, case),
                            _ => {}
                        }
                    }
                }
            }
        }
    });
    ctx.class("reader-hostile-length-cases", hostile.load(Ordering::Relaxed));
    execs.fetch_add(hostile.load(Ordering::Relaxed), Ordering::Relaxed);
    let n = execs.load(Ordering::Relaxed);
    ctx.add_evals(n);
    ctx.add_nontrivial(n);
    ctx.class("writer-schedules", wexecs);
    ctx.class("reader-schedules", n - wexecs);
    ctx.class("transfers-explored-without-deviation-bound", full_explored.load(Ordering::Relaxed));
    let mut ev = ctx.ev.lock().unwrap();
    ev.bound("deviation_bound", json!(bound));
    ev.bound("deviation_bound_raised_to_this_when_default_run_has_at_most_this_many_choice_points", json!(full_limit));
    ev.bound("max_choice_points_in_one_execution", json!(maxp.load(Ordering::Relaxed)));
    ev.bound("messages", json!(enc.len()));
    ev.bound("message_sequences", json!(nseq));
    ev.bound("answers", json!(["Full", "One", "AllButOne", "Interrupted(std only)", "HardError", "Zero(not for embedded-io writers)"]));
    ev.rule = "fault/schedule enumeration: every read/write/flush call is a choice point; all schedules with <= bound deviations (bound raised to the number of calls for transfers with few calls, i.e. every call may deviate) from the default answer otherwise (executions always run to completion); crossed with every scratch size 0..need+1, std::io and embedded-io 0.6 adapters, and sequences of 2..3 messages on one stream with the scratch remainder chained; oracle: bytes received are a prefix of the encoding and complete iff Ok; reader value = slice decoding, exact consumption (a sentinel byte after the message is never requested), borrowed fields at consecutive disjoint scratch ranges, scratch remainder right after; failure => Err, never a panic; scratch flush against a guard page".into();
    ev.sample(json!({"transport": "std::io::Read", "value": "(\"ab\", [1,2,3], 300, \"é\")", "schedule": ["Full", "One", "Interrupted", "Full", "..."], "scratch_len": 7}));
    ev.sample(json!({"transport": "embedded_io::Write", "value": "Bytes(130 x 7)", "schedule": ["AllButOne", "HardError"]}));
    ev.assumptions = vec!["deviation bound for long transfers".into(), "embedded-io 0.6 adapter only (0.4 is mutually exclusive in one build)".into()];
}
