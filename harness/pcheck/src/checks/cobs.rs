//! C06 COBS framing is one well-formed frame and decodes back frame by frame;
//! C07 COBS decoding of arbitrary bytes is total and matches the definition.

use crate::checks::c05::{real_decode, real_plain};
use crate::dynval::{with_shape, Dyn};
use crate::rt::{hex, set_case, trap, with_arena, Ctx};
use postcard::ser_flavors::{Cobs, Flavor};
use rayon::prelude::*;
use serde_json::json;
use std::ops::{Index, IndexMut};
use std::sync::atomic::{AtomicU64, Ordering};
use vmodel::codecs::{cobs_decode_frame, cobs_encode, first_frame};
use vmodel::glue::AsData;
use vmodel::shape::*;


/// a user storage that logs every operation the COBS modifier performs on it
#[derive(Default)]
pub struct LogStore {
    pub buf: Vec<u8>,
    /// snapshots of the storage content after each data byte pushed by the driver
    pub ops: u64,
}
impl Flavor for LogStore {
    type Output = Vec<u8>;
    fn try_push(&mut self, b: u8) -> postcard::Result<()> {
        self.ops += 1;
        self.buf.push(b);
        Ok(())
    }
    fn finalize(self) -> postcard::Result<Vec<u8>> {
        Ok(self.buf)
    }
}
impl Index<usize> for LogStore {
    type Output = u8;
    fn index(&self, i: usize) -> &u8 {
        &self.buf[i]
    }
}
impl IndexMut<usize> for LogStore {
    fn index_mut(&mut self, i: usize) -> &mut u8 {
        self.ops += 1;
        &mut self.buf[i]
    }
}

/// streaming reference encoder (second derivation, placeholder-based)
struct RefStream {
    out: Vec<u8>,
    code_idx: usize,
    run: usize,
}
impl RefStream {
    fn new() -> Self {
        RefStream { out: vec![0], code_idx: 0, run: 0 }
    }
    fn push(&mut self, b: u8) {
        if b == 0 {
            self.out[self.code_idx] = self.run as u8 + 1;
            self.code_idx = self.out.len();
            self.out.push(0);
            self.run = 0;
        } else {
            self.out.push(b);
            self.run += 1;
            if self.run == 254 {
                self.out[self.code_idx] = 0xFF;
                self.code_idx = self.out.len();
                self.out.push(0);
                self.run = 0;
            }
        }
    }
    fn finish(mut self) -> Vec<u8> {
        self.out[self.code_idx] = self.run as u8 + 1;
        self.out.push(0);
        self.out
    }
}

fn check_frame(want_plain: &[u8], got: &[u8]) -> Result<(), String> {
    let n = want_plain.len();
    if got.last() != Some(&0) {
        return Err("frame does not end with the 0x00 sentinel".into());
    }
    if got[..got.len() - 1].contains(&0) {
        return Err("interior zero byte in frame".into());
    }
    // n + n/254 + 2 is the length for a zero-free message and an upper bound otherwise (a zero
    // byte closes a block early and so can save a 0xFF code byte)
    let bound = n + n / 254 + 2;
    let zero_free = !want_plain.contains(&0);
    if got.len() > bound || (zero_free && got.len() != bound) {
        return Err(format!("frame length {} vs n + n/254 + 2 = {} (zero-free message: {})", got.len(), bound, zero_free));
    }
    let mut want = cobs_encode(want_plain);
    want.push(0);
    if got != want {
        return Err(format!("frame {} != reference {}", hex(got), hex(&want)));
    }
    Ok(())
}

fn msg_val(bytes: &[u8]) -> (Shape, Val) {
    (Shape::Tuple(vec![Shape::U8; bytes.len()]), Val::Tuple(bytes.iter().map(|b| Val::U8(*b)).collect()))
}

fn encode_all_storages(ctx: &Ctx, s: &Shape, v: &Val, plain: &[u8], order: u64, calls: &AtomicU64) {
    let d = AsData(v);
    let case = || json!({"shape": if plain.len() > 40 { json!("(long)") } else { json!(s) }, "plain": if plain.len() > 80 { format!("{} bytes: {}..", plain.len(), hex(&plain[..16])) } else { hex(plain) }});
    let n = plain.len() + plain.len() / 254 + 2;
    // slice (exact fit, guarded)
    let r = with_arena(n + 16, |a| {
        let buf = a.flush_end(n);
        trap(|| postcard::to_slice_cobs(&d, buf).map(|o| o.to_vec()))
    });
    calls.fetch_add(4, Ordering::Relaxed);
    match r {
        Ok(Ok(o)) => {
            if let Err(e) = check_frame(plain, &o) {
                ctx.violation("cobs-encode-slice", e, order, case());
            } else {
                // decodes back
                let mut o2 = o.clone();
                let r = trap(|| with_shape(s, || postcard::from_bytes_cobs::<Dyn>(&mut o2)));
                // "decodes back": what plain decoding of the plain encoding gives
                let want = real_decode(s, plain).map(|x| x.0);
                match (r, want) {
                    (Ok(Ok(Dyn(got))), Ok(w)) if got == w => {}
                    (Ok(Err(e)), Err(w)) if e == w => {}
                    (other, w) => ctx.violation("cobs-roundtrip", format!("from_bytes_cobs gave {:?}, plain decoding gives {:?}", other, w), order, case()),
                }
                let _ = v;
            }
        }
        other => ctx.violation("cobs-encode-slice", format!("to_slice_cobs: {:?}", other.map(|r| r.map(|o| o.len()))), order, case()),
    }
    // growable
    match trap(|| postcard::to_allocvec_cobs(&d)) {
        Ok(Ok(o)) => {
            if let Err(e) = check_frame(plain, &o) {
                ctx.violation("cobs-encode-allocvec", e, order, case());
            }
        }
        other => ctx.violation("cobs-encode-allocvec", format!("{:?}", other.map(|r| r.map(|o| o.len()))), order, case()),
    }
    match trap(|| postcard::to_stdvec_cobs(&d)) {
        Ok(Ok(o)) => {
            if let Err(e) = check_frame(plain, &o) {
                ctx.violation("cobs-encode-stdvec", e, order, case());
            }
        }
        other => ctx.violation("cobs-encode-stdvec", format!("{:?}", other.map(|r| r.map(|o| o.len()))), order, case()),
    }
    // heapless
    let r = if n <= 16 {
        trap(|| postcard::to_vec_cobs::<_, 16>(&d).map(|o| o.to_vec()))
    } else if n <= 260 {
        trap(|| postcard::to_vec_cobs::<_, 260>(&d).map(|o| o.to_vec()))
    } else {
        trap(|| postcard::to_vec_cobs::<_, 2100>(&d).map(|o| o.to_vec()))
    };
    match r {
        Ok(Ok(o)) => {
            if let Err(e) = check_frame(plain, &o) {
                ctx.violation("cobs-encode-hvec", e, order, case());
            }
        }
        other => ctx.violation("cobs-encode-hvec", format!("{:?}", other.map(|r| r.map(|o| o.len()))), order, case()),
    }
}

pub fn run_c06(ctx: &Ctx) {
    let calls = AtomicU64::new(0);
    // (a) all messages up to len over {00,01,02,FF}
    let alpha = [0x00u8, 0x01, 0x02, 0xFF];
    let maxlen = if ctx.quick() { 9 } else { 10 };
    let mut msgs: Vec<Vec<u8>> = vec![];
    for l in 0..=maxlen {
        vmodel::for_each_string(&alpha, l, &mut |s| msgs.push(s.to_vec()));
    }
    let nmsgs = msgs.len();
    msgs.par_iter().enumerate().for_each(|(i, m)| {
        let (s, v) = msg_val(m);
        if let Some(plain) = real_plain(&v) {
            encode_all_storages(ctx, &s, &v, &plain, i as u64, &calls);
        }
    });
    ctx.class("messages-over-4-symbols", nmsgs as u64);
    // (c) run structures around multiples of 254
    let runs = [0usize, 1, 2, 252, 253, 254, 255, 256, 507, 508, 509, 761, 762, 763];
    let mut structured: Vec<Vec<u8>> = vec![];
    for &a in &runs {
        structured.push(vec![0x33; a]);
        for &b in &runs {
            let mut m = vec![0x33; a];
            m.push(0);
            m.extend(vec![0x44; b]);
            structured.push(m.clone());
            if ctx.quick() && a > 2 && b > 2 && (a > 256 || b > 256) {
                continue;
            }
            for &c in &[0usize, 1, 253, 254, 255] {
                let mut m2 = m.clone();
                m2.push(0);
                m2.extend(vec![0x55; c]);
                structured.push(m2);
            }
        }
    }
    let nstruct = structured.len();
    structured.par_iter().enumerate().for_each(|(i, m)| {
        // as a byte-array value: plain = varint(len) ++ bytes
        let v = Val::Bytes(m.clone());
        if let Some(plain) = real_plain(&v) {
            encode_all_storages(ctx, &Shape::Bytes, &v, &plain, (1u64 << 32) | i as u64, &calls);
        }
    });
    ctx.class("run-structure-messages", nstruct as u64);
    // (b) explicit-state walk of the encoder flavour: from every run length r, every event word
    let words: Vec<Vec<u8>> = {
        let mut w = vec![];
        for l in 0..=3 {
            vmodel::for_each_string(&[0u8, 7u8], l, &mut |s| w.push(s.to_vec()));
        }
        w
    };
    let maxrun = if ctx.quick() { 765 } else { 1020 };
    let states = AtomicU64::new(0);
    let transitions = AtomicU64::new(0);
    (0..=maxrun).into_par_iter().for_each(|r: usize| {
        for w in &words {
            let mut msg = vec![0x66u8; r];
            msg.extend_from_slice(w);
            let order = (2u64 << 32) | (r as u64) << 8 | w.len() as u64;
            let res = trap(|| -> Result<(), String> {
                let mut flav = Cobs::try_new(LogStore::default()).map_err(|e| format!("try_new {e:?}"))?;
                let mut reference = RefStream::new();
                for (i, b) in msg.iter().enumerate() {
                    flav.try_push(*b).map_err(|e| format!("try_push {e:?}"))?;
                    reference.push(*b);
                    if i + 1 >= r {
                        transitions.fetch_add(1, Ordering::Relaxed);
                    }
                }
                let out = flav.finalize().map_err(|e| format!("finalize {e:?}"))?;
                let want = reference.finish();
                if out != want {
                    return Err(format!("encoder output differs from the streaming reference at run {} word {}", r, hex(w)));
                }
                check_frame(&msg, &out)
            });
            let res = match res {
                Ok(x) => x,
                Err(p) => Err(format!("panic: {p}")),
            };
            if let Err(e) = res {
                ctx.violation("cobs-encoder-state", e, order, json!({"run_length": r, "word": hex(w)}));
            }
        }
        states.fetch_add(1, Ordering::Relaxed);
    });
    ctx.class("encoder-states(run lengths)", states.load(Ordering::Relaxed));
    // (b2) the flavour has TWO operations, try_push and try_extend, and a serializer mixes them (single
    // bytes for u8/bool/tags, chunks for varints, strings, floats). From every run length r - reached by
    // pushes only, by one extend chunk, or half and half in either order - every sequence of <= 2
    // operations over {push 00, push 07, extend of a small chunk, extend of a chunk that reaches / crosses
    // the next block boundary} must leave the storage holding the reference frame (round-8 seeds C06-i and
    // C20-i: a bulk try_extend fast path whose block counter is not maintained by try_push).
    #[derive(Clone, Debug)]
    enum Op {
        P(u8),
        E(Vec<u8>),
    }
    let mut ops: Vec<Op> = vec![Op::P(0), Op::P(7), Op::E(vec![]), Op::E(vec![7]), Op::E(vec![0]), Op::E(vec![7, 7]), Op::E(vec![7, 0]), Op::E(vec![0, 7])];
    for e in [100usize, 253, 254, 255] {
        ops.push(Op::E(vec![7; e]));
    }
    if !ctx.quick() {
        ops.push(Op::E(vec![7, 0, 7]));
        ops.push(Op::E(vec![7; 509]));
    }
    let mut opwords: Vec<Vec<Op>> = vec![vec![]];
    for a in &ops {
        opwords.push(vec![a.clone()]);
        for b in &ops {
            opwords.push(vec![a.clone(), b.clone()]);
        }
    }
    let maxrun2 = if ctx.quick() { 520 } else { 1020 };
    let mixed = AtomicU64::new(0);
    let mixed_boundary = AtomicU64::new(0);
    (0..=maxrun2).into_par_iter().for_each(|r: usize| {
        for mode in 0..4usize {
            // how the run of r non-zero bytes is delivered
            let (first, second) = match mode {
                0 => (r, 0),
                1 => (0, r),
                _ => (r / 2, r - r / 2),
            };
            for (wi, w) in opwords.iter().enumerate() {
                let order = (5u64 << 32) | (r as u64) << 12 | (mode as u64) << 10 | wi as u64;
                let res = trap(|| -> Result<(), String> {
                    let mut flav = Cobs::try_new(LogStore::default()).map_err(|e| format!("try_new {e:?}"))?;
                    let mut msg_l: Vec<u8> = vec![];
                    let push_n = |flav: &mut Cobs<LogStore>, n: usize, msg_l: &mut Vec<u8>| -> Result<(), String> {
                        for _ in 0..n {
                            flav.try_push(0x66).map_err(|e| format!("try_push {e:?}"))?;
                            msg_l.push(0x66);
                        }
                        Ok(())
                    };
                    let ext_n = |flav: &mut Cobs<LogStore>, n: usize, msg_l: &mut Vec<u8>| -> Result<(), String> {
                        let chunk = vec![0x66u8; n];
                        flav.try_extend(&chunk).map_err(|e| format!("try_extend {e:?}"))?;
                        msg_l.extend_from_slice(&chunk);
                        Ok(())
                    };
                    match mode {
                        0 => push_n(&mut flav, first, &mut msg_l)?,
                        1 => ext_n(&mut flav, second, &mut msg_l)?,
                        2 => {
                            push_n(&mut flav, first, &mut msg_l)?;
                            ext_n(&mut flav, second, &mut msg_l)?;
                        }
                        _ => {
                            ext_n(&mut flav, first, &mut msg_l)?;
                            push_n(&mut flav, second, &mut msg_l)?;
                        }
                    }
                    for op in w {
                        match op {
                            Op::P(b) => {
                                flav.try_push(*b).map_err(|e| format!("try_push {e:?}"))?;
                                msg_l.push(*b);
                            }
                            Op::E(c) => {
                                flav.try_extend(c).map_err(|e| format!("try_extend {e:?}"))?;
                                msg_l.extend_from_slice(c);
                            }
                        }
                    }
                    let out = flav.finalize().map_err(|e| format!("finalize {e:?}"))?;
                    let mut want = cobs_encode(&msg_l);
                    want.push(0);
                    if out != want {
                        return Err(format!("Cobs flavour output after mixed push/extend differs from the reference frame (run {r}, delivery mode {mode}, ops {:?})", w.iter().map(|o| match o { Op::P(b) => format!("push {b:02x}"), Op::E(c) => format!("extend {}x", c.len()) }).collect::<Vec<_>>()));
                    }
                    check_frame(&msg_l, &out)
                });
                mixed.fetch_add(1, Ordering::Relaxed);
                let total_len: usize = r + w.iter().map(|o| match o { Op::P(_) => 1, Op::E(c) => c.len() }).sum::<usize>();
                if total_len / 254 > r / 254 {
                    mixed_boundary.fetch_add(1, Ordering::Relaxed);
                }
                let res = match res {
                    Ok(x) => x,
                    Err(p) => Err(format!("panic: {p}")),
                };
                if let Err(e) = res {
                    let mode_name = ["pushes", "one extend", "pushes then extend", "extend then pushes"][mode];
                    let ops_s = format!("{:?}", w.iter().map(|o| match o { Op::P(b) => format!("push {b:02x}"), Op::E(c) => format!("extend {}", hex(&c[..c.len().min(4)])) + &format!("({} bytes)", c.len()) }).collect::<Vec<_>>());
                    ctx.violation("cobs-encoder-mixed-ops", e, order, json!({"run_length": r, "delivery_mode": mode_name, "ops": ops_s}));
                }
            }
        }
    });
    ctx.class("encoder-mixed-push/extend-executions", mixed.load(Ordering::Relaxed));
    ctx.class("encoder-mixed-executions-crossing-a-block-boundary", mixed_boundary.load(Ordering::Relaxed));
    calls.fetch_add(mixed.load(Ordering::Relaxed), Ordering::Relaxed);
    // (e) frame sequences
    let pool: Vec<Val> = vec![
        Val::Bytes(vec![]),
        Val::Bytes(vec![0]),
        Val::Bytes(vec![1]),
        Val::Bytes(vec![0, 0]),
        Val::Bytes(vec![1, 2, 3]),
        Val::Bytes(vec![9; 252]),
        Val::Bytes(vec![9; 253]),
        Val::Bytes(vec![0; 10]),
    ];
    // frames = reference COBS of the REAL plain encoding; expected values = real plain decoding of it
    let plains: Vec<Vec<u8>> = pool.iter().map(|v| real_plain(v).unwrap_or_default()).collect();
    let expect: Vec<Result<Val, postcard::Error>> = plains.iter().map(|p| real_decode(&Shape::Bytes, p).map(|x| x.0)).collect();
    let frames: Vec<Vec<u8>> = plains.iter().map(|p| {
        let mut f = cobs_encode(p);
        f.push(0);
        f
    }).collect();
    let maxseq = if ctx.quick() { 4 } else { 6 };
    let pool_n = if ctx.quick() { 8 } else { 5 };
    let mut seqs: Vec<Vec<usize>> = vec![];
    for l in 1..=maxseq {
        let alpha: Vec<u8> = (0..pool_n as u8).collect();
        vmodel::for_each_string(&alpha, l, &mut |s| seqs.push(s.iter().map(|x| *x as usize).collect()));
    }
    let nseq = seqs.len();
    seqs.par_iter().enumerate().for_each(|(qi, seq)| {
        for with_final in [true, false] {
            let mut buf: Vec<u8> = vec![];
            let mut bounds = vec![];
            for (i, f) in seq.iter().enumerate() {
                let fr = &frames[*f];
                if i + 1 == seq.len() && !with_final {
                    buf.extend_from_slice(&fr[..fr.len() - 1]);
                } else {
                    buf.extend_from_slice(fr);
                }
                bounds.push(buf.len());
            }
            calls.fetch_add(seq.len() as u64, Ordering::Relaxed);
            let order = (3u64 << 32) | (qi as u64) << 1 | with_final as u64;
            let case = || json!({"frame_sequence": seq, "final_sentinel": with_final, "pool": "Bytes values: [],[0],[1],[0,0],[1,2,3],252x9,253x9,10x0"});
            let r = with_arena(buf.len() + 16, |a| {
                let total = buf.len();
                let inp = a.place(&buf, true);
                let base = inp.as_ptr() as usize;
                trap(|| {
                    with_shape(&Shape::Bytes, || -> Result<(), String> {
                        let mut window: &mut [u8] = inp;
                        for (i, f) in seq.iter().enumerate() {
                            let (Dyn(v), rest) = postcard::take_from_bytes_cobs::<Dyn>(window).map_err(|e| format!("frame {i}: {e:?}"))?;
                            if Ok(&v) != expect[*f].as_ref() {
                                return Err(format!("frame {i}: value {:?}", v));
                            }
                            let off = rest.as_ptr() as usize - base;
                            if off != bounds[i] || rest.len() != total - bounds[i] {
                                return Err(format!("frame {i}: remainder at {} len {}, expected at {} len {}", off, rest.len(), bounds[i], total - bounds[i]));
                            }
                            window = rest;
                        }
                        Ok(())
                    })
                })
            });
            let r = match r {
                Ok(x) => x,
                Err(p) => Err(format!("panic: {p}")),
            };
            if let Err(e) = r {
                ctx.violation("cobs-frame-sequence", e, order, case());
            }
        }
    });
    // frames whose plain payload is EMPTY (unit values): "01 00" repeated, decoded frame-at-a-time as ()
    for nframes in 1..=4usize {
        for with_final in [true, false] {
            let mut buf = vec![];
            let mut bounds = vec![];
            for i in 0..nframes {
                buf.push(0x01);
                if i + 1 < nframes || with_final {
                    buf.push(0x00);
                }
                bounds.push(buf.len());
            }
            let total = buf.len();
            let r = with_arena(total + 16, |a| {
                let inp = a.place(&buf, true);
                let base = inp.as_ptr() as usize;
                trap(|| {
                    with_shape(&Shape::Unit, || -> Result<(), String> {
                        let mut window: &mut [u8] = inp;
                        for (i, b) in bounds.iter().enumerate() {
                            let (Dyn(v), rest) = postcard::take_from_bytes_cobs::<Dyn>(window).map_err(|e| format!("unit frame {i}: {e:?}"))?;
                            if v != Val::Unit {
                                return Err(format!("unit frame {i}: value {:?}", v));
                            }
                            let off = rest.as_ptr() as usize - base;
                            if off != *b || rest.len() != total - b {
                                return Err(format!("unit frame {i}: remainder at {} len {}, expected at {}", off, rest.len(), b));
                            }
                            window = rest;
                        }
                        Ok(())
                    })
                })
            });
            calls.fetch_add(nframes as u64, Ordering::Relaxed);
            let r = match r {
                Ok(x) => x,
                Err(p) => Err(format!("panic: {p}")),
            };
            if let Err(e) = r {
                ctx.violation("cobs-frame-sequence", e, (4u64 << 32) | (nframes as u64) << 1 | with_final as u64, json!({"unit_frames": nframes, "final_sentinel": with_final, "buffer": hex(&buf)}));
            }
        }
    }
    ctx.class("frame-sequences", 2 * nseq as u64 + 8);
    let st = states.load(Ordering::Relaxed);
    let tr = transitions.load(Ordering::Relaxed);
    let total = calls.load(Ordering::Relaxed) + tr;
    let mut ev = ctx.ev.lock().unwrap();
    ev.states = Some(st);
    ev.transitions = Some(tr);
    ev.traces_validated = Some(st * words.len() as u64);
    ev.evaluations = total;
    ev.distinct_nontrivial = total;
    ev.bound("message_len_max_over_4_symbols", json!(maxlen));
    ev.bound("run_lengths", json!(runs));
    ev.bound("encoder_run_lengths", json!(format!("0..={maxrun}")));
    ev.bound("event_words", json!(words.len()));
    ev.bound("mixed_ops_run_lengths", json!(format!("0..={maxrun2} x 4 delivery modes")));
    ev.bound("mixed_ops_words", json!(format!("{} sequences of <= 2 operations over {} push/extend operations", opwords.len(), ops.len())));
    ev.bound("frame_sequence_len_max", json!(maxseq));
    ev.bound("frame_pool", json!(pool_n));
    ev.rule = "all messages <= L over {00,01,02,FF} (as u8 tuples) and all run structures around multiples of 254, on slice/heapless/growable storage, compared with an independent COBS encoder (exactly one zero, at the end; length n+n/254+2; decodes back); explicit-state walk of the real Cobs flavour over a logging storage from every run length x every event word <= 3 against a second (streaming) reference; from every run length (delivered by pushes, by one extend, or half and half) every sequence of <= 2 operations over push/extend (small chunks and chunks reaching or crossing the next block boundary) against the reference frame; every sequence of frames from the pool decoded frame-at-a-time with exact remainder pointers, with and without the final sentinel".into();
    ev.sample(json!({"plain": "254 x 0x33", "frame": "ff 33*254 01 00"}));
    ev.sample(json!({"frame_sequence": [4, 0, 6], "final_sentinel": false}));
    ev.assumptions = vec!["byte alphabet {00,01,02,FF}: the encoder distinguishes only zero / non-zero and the run length".into()];
}

// ---------------------------------------------------------------------------------------------

pub const A_COBS: [u8; 6] = [0x00, 0x01, 0x02, 0x03, 0x04, 0xFF];

fn c07_targets() -> Vec<Shape> {
    vec![
        Shape::Bool,
        Shape::U8,
        Shape::U16,
        Shape::Tuple(vec![Shape::U8, Shape::U8]),
        Shape::Tuple(vec![Shape::U8, Shape::U8, Shape::U8]),
        Shape::Bytes,
        Shape::Str,
        Shape::Seq(Box::new(Shape::U8)),
        Shape::Unit,
        Shape::Option(Box::new(Shape::Bool)),
    ]
}

/// one C07 comparison: both entry points on a guarded copy of `x`
fn c07_case(ctx: &Ctx, s: &Shape, x: &[u8], order: u64, st: &mut [u64; 4]) {
    let (f, had_sentinel, after) = first_frame(x);
    // plain decoding (by the real plain decoder) of the reference-COBS-decoded payload of the first frame
    let want: Result<Result<Val, postcard::Error>, ()> = cobs_decode_frame(f).map(|p| real_decode(s, &p).map(|x| x.0));
    let case = || json!({"target": s, "input": if x.len() > 64 { format!("{} bytes: {} ..", x.len(), hex(&x[..24])) } else { hex(x) }});
    for take in [false, true] {
        for at_end in [true, false] {
            let r = with_arena(x.len() + 16, |a| {
                let inp = a.place(x, at_end);
                let base = inp.as_ptr() as usize;
                let mut cs = Vec::with_capacity(128);
                let _ = serde_json::to_writer(&mut cs, &case());
                set_case(&cs);
                let r = trap(|| {
                    with_shape(s, || {
                        if take {
                            postcard::take_from_bytes_cobs::<Dyn>(inp).map(|(Dyn(v), rem)| (v, Some((rem.as_ptr() as usize - base, rem.len()))))
                        } else {
                            postcard::from_bytes_cobs::<Dyn>(inp).map(|Dyn(v)| (v, None))
                        }
                    })
                });
                (r, a.place(&[], at_end).len())
            });
            // tail-unchanged check needs the buffer content: redo on a plain copy (deterministic)
            let r = match r.0 {
                Ok(r) => r,
                Err(p) => {
                    ctx.violation("cobs-decode-panic", format!("panic: {p}"), order, case());
                    return;
                }
            };
            match (&want, &r) {
                (Err(()), Err(e)) => {
                    st[0] += 1;
                    if *e != postcard::Error::DeserializeBadEncoding {
                        ctx.violation("cobs-error-kind", format!("ill-formed COBS rejected with {:?}, expected DeserializeBadEncoding", e), order, case());
                    }
                }
                (Err(()), Ok((v, _))) => ctx.violation("cobs-ill-formed-accepted", format!("ill-formed COBS accepted as {:?}", v), order, case()),
                (Ok(Err(k)), Err(e)) => {
                    st[1] += 1;
                    if e != k {
                        ctx.violation("cobs-payload-error-kind", format!("{:?}, plain decoding of the payload gives {:?}", e, k), order, case());
                    }
                }
                (Ok(Ok(v)), Ok((got, rem))) => {
                    st[2] += 1;
                    if v != got {
                        ctx.violation("cobs-value", format!("decoded {:?}, reference {:?}", got, v), order, case());
                    }
                    if let Some((off, len)) = rem {
                        let want_off = if had_sentinel { after } else { x.len() };
                        if *off != want_off || *len != x.len() - want_off {
                            ctx.violation("cobs-remainder", format!("remainder at {} len {}, expected at {} (right after the first sentinel)", off, len, want_off), order, case());
                        }
                    }
                }
                (Ok(Ok(v)), Err(e)) => ctx.violation("cobs-too-strict", format!("rejected with {:?}, reference decodes {:?}", e, v), order, case()),
                (Ok(Err(k)), Ok((got, _))) => ctx.violation("cobs-too-lax", format!("accepted as {:?}, plain decoding of the payload fails with {:?}", got, k), order, case()),
            }
            st[3] += 1;
        }
    }
    // bytes after the sentinel are unchanged (on an ordinary copy)
    if had_sentinel {
        let mut copy = x.to_vec();
        let _ = trap(|| with_shape(s, || postcard::take_from_bytes_cobs::<Dyn>(&mut copy).map(|_| ())));
        if copy[after..] != x[after..] {
            ctx.violation("cobs-tail-modified", "bytes after the first sentinel were modified".into(), order, case());
        }
    }
}

pub fn run_c07(ctx: &Ctx) {
    let maxlen = if ctx.quick() { 8 } else { 9 };
    let targets = c07_targets();
    let mut strings: Vec<Vec<u8>> = vec![];
    for l in 0..=maxlen {
        vmodel::for_each_string(&A_COBS, l, &mut |s| strings.push(s.to_vec()));
    }
    let tot = [AtomicU64::new(0), AtomicU64::new(0), AtomicU64::new(0), AtomicU64::new(0)];
    // shard strings
    strings.par_chunks(4096).enumerate().for_each(|(ci, chunk)| {
        let mut st = [0u64; 4];
        for (ti, s) in targets.iter().enumerate() {
            for (xi, x) in chunk.iter().enumerate() {
                c07_case(ctx, s, x, (ci as u64 * 4096 + xi as u64) << 8 | ti as u64, &mut st);
            }
        }
        for i in 0..4 {
            tot[i].fetch_add(st[i], Ordering::Relaxed);
        }
    });
    // long frames: truncations and single-byte corruptions
    let runs = [252usize, 253, 254, 255, 256, 508, 509];
    let mut long_inputs: Vec<Vec<u8>> = vec![];
    for &a in &runs {
        for z in [false, true] {
            let mut m = vec![0x21u8; a];
            if z {
                m[a / 2] = 0;
            }
            let plain = real_plain(&Val::Bytes(m)).unwrap_or_default();
            let mut frame = cobs_encode(&plain);
            frame.push(0);
            let step = if ctx.quick() { 1 } else { 1 };
            for tail in [&[][..], &[0x07][..], &[0x00, 0x07][..]] {
                // the intact frame, then truncation at every position
                {
                    let mut x = frame.clone();
                    x.extend_from_slice(tail);
                    long_inputs.push(x);
                }
                for cut in (0..frame.len()).step_by(step) {
                    let mut x = frame[..cut].to_vec();
                    x.extend_from_slice(tail);
                    long_inputs.push(x);
                }
                // substitution at every position by every symbol (quick: positions near code bytes and every 8th)
                for pos in 0..frame.len() {
                    let near = pos < 4 || pos + 4 >= frame.len() || (pos % 254) < 3 || (pos % 254) > 251 || (pos as isize - (a / 2) as isize).abs() < 3;
                    if ctx.quick() && !near && pos % 16 != 0 {
                        continue;
                    }
                    for &b in &A_COBS {
                        if frame[pos] != b {
                            let mut x = frame.clone();
                            x[pos] = b;
                            x.extend_from_slice(tail);
                            long_inputs.push(x);
                        }
                    }
                }
            }
        }
    }
    let long_targets = [Shape::Bytes, Shape::Seq(Box::new(Shape::U8)), Shape::Str];
    long_inputs.par_iter().enumerate().for_each(|(i, x)| {
        let mut st = [0u64; 4];
        for (ti, s) in long_targets.iter().enumerate() {
            c07_case(ctx, s, x, (1u64 << 40) | (i as u64) << 4 | ti as u64, &mut st);
        }
        for i in 0..4 {
            tot[i].fetch_add(st[i], Ordering::Relaxed);
        }
    });
    let n = tot[3].load(Ordering::Relaxed);
    ctx.add_evals(n);
    ctx.add_nontrivial(n);
    ctx.class("ill-formed-cobs-rejected", tot[0].load(Ordering::Relaxed));
    ctx.class("well-formed-cobs:payload-rejected", tot[1].load(Ordering::Relaxed));
    ctx.class("well-formed-cobs:value", tot[2].load(Ordering::Relaxed));
    ctx.require_class("ill-formed-cobs-rejected");
    ctx.require_class("well-formed-cobs:payload-rejected");
    ctx.require_class("well-formed-cobs:value");
    let mut ev = ctx.ev.lock().unwrap();
    ev.bound("alphabet", json!(hex(&A_COBS)));
    ev.bound("string_len_max", json!(maxlen));
    ev.bound("strings", json!(strings.len()));
    ev.bound("targets", json!(targets));
    ev.bound("long_inputs", json!(long_inputs.len()));
    ev.rule = "every byte string over the code-byte alphabet up to the length bound x target types x {from_bytes_cobs, take_from_bytes_cobs} x two guard-page placements, plus every truncation and single-byte corruption (by every alphabet symbol) of long frames with three tails; oracle = independent COBS decode of the first frame followed by the spec decoder; remainder must start right after the first sentinel; bytes after the sentinel unchanged".into();
    ev.sample(json!({"target": "Bool", "input": "02 01 00 07", "expect": "Ok(true), remainder [07]"}));
    ev.sample(json!({"target": "U8", "input": "03 01", "expect": "Err(DeserializeBadEncoding)"}));
    ev.assumptions = vec!["the in-place decoder is the cobs dependency's; decided here is postcard's use of its report".into()];
}
