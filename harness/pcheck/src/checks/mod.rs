pub mod c01;
pub mod c03;
pub mod acc;
pub mod c05;
pub mod cobs;
pub mod crc;
pub mod stacks;
pub mod fixint;
pub mod maxsize;
pub mod io;
pub mod schema;
pub mod schema_typed;
pub mod dynchk;
pub mod dyn_typed;

use crate::rt::{Ctx, Tier};

pub fn run(id: &str, tier: Tier, seed: u64) -> i32 {
    let level = match id {
        "C05" | "C11" => "fault_enumeration",
        _ => "model_checking",
    };
    let ctx = Ctx::new(id, tier, seed, level);
    match id {
        "C01" => c01::run(&ctx, false),
        "C02" => c01::run(&ctx, true),
        "C03" => c03::run(&ctx, false),
        "C04" => c03::run(&ctx, true),
        "C05" => c05::run(&ctx),
        "C06" => cobs::run_c06(&ctx),
        "C07" => cobs::run_c07(&ctx),
        "C08" => acc::run(&ctx, false),
        "C10" => crc::run(&ctx),
        "C11" => io::run(&ctx),
        "C12" => maxsize::run(&ctx),
        "C13" => fixint::run(&ctx),
        "C14" => schema_typed::run(&ctx),
        "C15" => schema::run_c15(&ctx),
        "C16" => schema::run_c16(&ctx),
        "C17" => dynchk::run_c17(&ctx),
        "C18" => dynchk::run_c18(&ctx),
        "C19" => schema::run_c19(&ctx),
        "C20" => stacks::run(&ctx),
        "C09" => acc::run(&ctx, true),
        _ => {
            eprintln!("unknown property {id}");
            return 2;
        }
    }
    ctx.finish()
}

pub fn replay(_path: &str) -> i32 {
    eprintln!("replay not implemented yet");
    2
}

pub fn worker(args: &[String]) -> i32 {
    match args.first().map(|s| s.as_str()) {
        Some("c18-decode") if args.len() == 3 => dynchk::worker_decode(&args[1..]),
        _ => 2,
    }
}
