pub mod c01;
pub mod c03;
pub mod acc;

use crate::rt::{Ctx, Tier};

pub fn run(id: &str, tier: Tier, seed: u64) -> i32 {
    let level = match id {
        "C05" | "C11" => "fault_enumeration",
        _ => "model_checking",
    };
    let ctx = Ctx::new(id, tier, seed, level);
    match id {
        "C01" => c01::run(&ctx, false),
        "C02" => c01::run(&ctx, true),
        "C03" => c03::run(&ctx, false),
        "C04" => c03::run(&ctx, true),
        "C08" => acc::run(&ctx, false),
        "C09" => acc::run(&ctx, true),
        _ => {
            eprintln!("unknown property {id}");
            return 2;
        }
    }
    ctx.finish()
}

pub fn replay(_path: &str) -> i32 {
    eprintln!("replay not implemented yet");
    2
}

pub fn worker(_args: &[String]) -> i32 {
    2
}
