pub mod c01;
pub mod c03;
pub mod c04_typed;
pub mod acc;
pub mod c05;
pub mod cobs;
pub mod crc;
pub mod stacks;
pub mod fixint;
pub mod maxsize;
pub mod io;
pub mod schema;
pub mod typed_gen;
pub mod schema_typed;
pub mod dynchk;
pub mod dyn_typed;

use crate::rt::{Ctx, Tier};

pub fn run(id: &str, tier: Tier, seed: u64) -> i32 {
    let level = match id {
        "C05" | "C11" => "fault_enumeration",
        _ => "model_checking",
    };
    let ctx = Ctx::new(id, tier, seed, level);
    // A panic of the harness itself (outside the panic trap around the code under test) is a machinery
    // failure, never a verdict; but violations recorded before it are real observations and are still
    // reported (finish() gives them precedence).
    let r = std::panic::catch_unwind(std::panic::AssertUnwindSafe(|| match id {
        "C01" => c01::run(&ctx, false),
        "C02" => c01::run(&ctx, true),
        "C03" => c03::run(&ctx, false),
        "C04" => {
            c03::run(&ctx, true);
            c04_typed::run(&ctx);
        }
        "C05" => c05::run(&ctx),
        "C06" => cobs::run_c06(&ctx),
        "C07" => cobs::run_c07(&ctx),
        "C08" => acc::run(&ctx, false),
        "C10" => crc::run(&ctx),
        "C11" => io::run(&ctx),
        "C12" => maxsize::run(&ctx),
        "C13" => fixint::run(&ctx),
        "C14" => schema_typed::run(&ctx),
        "C15" => schema::run_c15(&ctx),
        "C16" => schema::run_c16(&ctx),
        "C17" => dynchk::run_c17(&ctx),
        "C18" => dynchk::run_c18(&ctx),
        "C19" => schema::run_c19(&ctx),
        "C20" => stacks::run(&ctx),
        "C09" => acc::run(&ctx, true),
        _ => {
            eprintln!("unknown property {id}");
            std::process::exit(2);
        }
    }));
    if r.is_err() {
        ctx.machinery("the harness panicked outside the panic trap (see the message above); enumeration incomplete".into());
        ctx.ev.lock().unwrap().exhaustive = false;
    }
    ctx.finish()
}

/// Re-run a recorded violation. Single-case fast paths exist for the decoder checks (shape + input)
/// and the accumulator graph (state + chunk); every other replay re-runs the property's check at the
/// recorded tier. In all cases the run is done TWICE and must report the same class with the same
/// minimal case both times (determinism), otherwise exit 2.
pub fn replay(path: &str) -> i32 {
    let doc: serde_json::Value = match std::fs::read_to_string(path).ok().and_then(|s| serde_json::from_str(&s).ok()) {
        Some(d) => d,
        None => {
            eprintln!("cannot read replay file {path}");
            return 2;
        }
    };
    let id = doc["property"].as_str().unwrap_or("").to_string();
    let class = doc["class"].as_str().unwrap_or("").to_string();
    let case = doc["case"].clone();
    let tier = if doc["tier"].as_str() == Some("thorough") { Tier::Thorough } else { Tier::Quick };
    let mut observed = vec![];
    for round in 0..2 {
        let level = if id == "C05" || id == "C11" { "fault_enumeration" } else { "model_checking" };
        let ctx = Ctx::new(&format!("{id}-replay"), tier, 0, level);
        // a fault (guard page, abort, allocation cap) during the replay is reported under the property's own id
        crate::rt::set_property(&id);
        let single = match (id.as_str(), case.get("shape"), case.get("input")) {
            ("C03" | "C04", Some(sh), Some(inp)) => {
                let shape: vmodel::shape::Shape = serde_json::from_value(sh.clone()).expect("shape");
                let bytes: Vec<u8> = inp.as_str().unwrap_or("").split_whitespace().map(|b| u8::from_str_radix(b, 16).unwrap()).collect();
                let mut st = c03::LocalStats::default();
                let opts = c03::CmpOpts::new(id == "C04", &shape);
                crate::dynval::with_shape(&shape, || c03::compare_decode(&ctx, &shape, &bytes, 0, &mut st, &opts));
                true
            }
            _ => false,
        };
        if !single {
            match id.as_str() {
                "C01" => c01::run(&ctx, false),
                "C02" => c01::run(&ctx, true),
                "C03" => c03::run(&ctx, false),
                "C04" => c03::run(&ctx, true),
                "C05" => c05::run(&ctx),
                "C06" => cobs::run_c06(&ctx),
                "C07" => cobs::run_c07(&ctx),
                "C08" => acc::run(&ctx, false),
                "C09" => acc::run(&ctx, true),
                "C10" => crc::run(&ctx),
                "C11" => io::run(&ctx),
                "C12" => maxsize::run(&ctx),
                "C13" => fixint::run(&ctx),
                "C14" => schema_typed::run(&ctx),
                "C15" => schema::run_c15(&ctx),
                "C16" => schema::run_c16(&ctx),
                "C17" => dynchk::run_c17(&ctx),
                "C18" => dynchk::run_c18(&ctx),
                "C19" => schema::run_c19(&ctx),
                "C20" => stacks::run(&ctx),
                _ => {
                    eprintln!("unknown property in replay file");
                    return 2;
                }
            }
        }
        let got = ctx.violations_snapshot();
        let hit = got.iter().find(|(c, _, _)| *c == class).cloned();
        println!("replay round {}: {}", round + 1, match &hit { Some((c, w, _)) => format!("REPRODUCED class={c}: {w}"), None => format!("not reproduced (classes seen: {:?})", got.iter().map(|g| g.0.clone()).collect::<Vec<_>>()) });
        observed.push(hit.map(|(c, w, case)| (c, w, case.to_string())));
    }
    if observed[0] != observed[1] {
        eprintln!("MACHINERY: the two replay rounds differ (non-determinism)");
        return 2;
    }
    if observed[0].is_some() {
        println!("VIOLATION property={id} replay={path}");
        1
    } else {
        0
    }
}

pub fn worker(args: &[String]) -> i32 {
    match args.first().map(|s| s.as_str()) {
        Some("c18-decode") if args.len() == 3 => dynchk::worker_decode(&args[1..]),
        _ => 2,
    }
}
