//! C10 CRC framing appends the right checksum and never accepts a wrong one.

use crate::checks::c03::A_DEC;
use crate::checks::c05::{real_decode, real_plain, value_corpus};
use crate::dynval::{with_shape, Dyn};
use crate::framing::*;
use crate::rt::{hex, trap, with_arena, Ctx};
use rayon::prelude::*;
use serde_json::json;
use std::sync::atomic::{AtomicU64, Ordering};
use vmodel::glue::AsData;
use vmodel::shape::*;
use vmodel::spec::{spec_decode, spec_encode};

#[derive(Debug, PartialEq)]
enum Want {
    Ok(Val, usize),
    /// plain decoding rejects the payload (with this error)
    Payload(postcard::Error),
    /// payload fine, fewer than W bytes follow
    ShortChecksum,
    BadCrc,
}

/// inputs claiming > 4096 zero-width elements are never executed (C04's carve-out)
fn dangerous(s: &Shape, x: &[u8]) -> bool {
    let sd = spec_decode(s, x);
    sd.budget_exceeded || sd.max_zero_width_claim > 4096
}

fn oracle(a: CrcAlgo, s: &Shape, x: &[u8]) -> Option<Want> {
    if dangerous(s, x) {
        return None;
    }
    // "the bytes it consumed for the value": what the real PLAIN decoder consumes for the value
    Some(match real_decode(s, x) {
        Err(k) => Want::Payload(k),
        Ok((v, c)) => {
            let w = a.wire_bytes();
            if x.len() - c < w {
                Want::ShortChecksum
            } else if x[c..c + w] == a.ref_checksum_le(&x[..c])[..] {
                Want::Ok(v, c + w)
            } else {
                Want::BadCrc
            }
        }
    })
}

/// compare both real entry points with the oracle on one input; returns true when accepted
fn compare(ctx: &Ctx, a: CrcAlgo, s: &Shape, x: &[u8], order: u64, must_reject: Option<&str>) -> Option<bool> {
    let want = oracle(a, s, x)?;
    let case = || json!({"algorithm": a.params().name, "target": s, "input": hex(x), "corruption": must_reject});
    let r = with_arena(x.len() + 16, |ar| {
        let inp: &[u8] = ar.place(x, true);
        let base = inp.as_ptr() as usize;
        trap(|| {
            with_shape(s, || {
                let t = crc_take::<Dyn>(a, inp).map(|(Dyn(v), rem)| (v, rem.as_ptr() as usize - base, rem.len()));
                let f = crc_from::<Dyn>(a, inp).map(|Dyn(v)| v);
                (t, f)
            })
        })
    });
    let (t, f) = match r {
        Ok(x) => x,
        Err(p) => {
            ctx.violation("crc-panic", format!("panic: {p}"), order, case());
            return Some(false);
        }
    };
    // from_bytes_crc agrees with the take_ form
    match (&t, &f) {
        (Ok((v, _, _)), Ok(v2)) if v == v2 => {}
        (Err(e1), Err(e2)) if e1 == e2 => {}
        _ => ctx.violation("crc-entry-points-disagree", format!("take: {:?} from: {:?}", t, f), order, case()),
    }
    let accepted = t.is_ok();
    match (&want, &t) {
        (Want::Ok(v, used), Ok((got, off, len))) => {
            if v != got || *off != *used || *len != x.len() - used {
                ctx.violation("crc-value", format!("got {:?} rem at {} len {}, want {:?} consuming {}", got, off, len, v, used), order, case());
            }
        }
        // the property is about accept / reject: which error a rejection carries is not part of it
        (Want::Payload(_), Err(_)) | (Want::ShortChecksum, Err(_)) | (Want::BadCrc, Err(_)) => {}
        (w, Ok((got, off, _))) => {
            // accepted something whose consumed bytes are not followed by their correct checksum
            ctx.violation("crc-wrong-checksum-accepted", format!("accepted {:?} (remainder at {}), oracle: {:?}", got, off, w), order, case());
        }
        (Want::Ok(v, _), Err(e)) => ctx.violation("crc-too-strict", format!("rejected with {:?}, frame is valid for {:?}", e, v), order, case()),
    }
    if let Some(kind) = must_reject {
        if accepted {
            ctx.violation("crc-corruption-accepted", format!("corruption ({kind}) accepted"), order, case());
        }
    }
    Some(accepted)
}

pub fn run(ctx: &Ctx) {
    let algos: Vec<CrcAlgo> = if ctx.quick() { ONE_PER_WIDTH.to_vec() } else { ALL_CRC.to_vec() };
    let corpus = value_corpus(3, 256, if ctx.quick() { 6 } else { 24 });
    let enc_calls = AtomicU64::new(0);
    let dec_calls = AtomicU64::new(0);
    let flips = AtomicU64::new(0);
    let accepted = AtomicU64::new(0);
    let rejected = AtomicU64::new(0);
    let all_algos = ALL_CRC.to_vec();
    // (1) encode side + decode of valid frames + every single-bit flip
    corpus.par_iter().enumerate().for_each(|(si, (s, vals))| {
        for (vi, v) in vals.iter().enumerate() {
            let plain = match real_plain(v) {
                Some(p) => p,
                None => continue,
            };
            let d = AsData(v);
            for (ai, a) in all_algos.iter().enumerate() {
                let f = Framing::Crc(*a);
                let want = f.reference(&plain);
                let order = (si as u64) << 32 | (vi as u64) << 16 | (ai as u64) << 8;
                let case = || json!({"shape": s, "value": v, "algorithm": a.params().name});
                enc_calls.fetch_add(3, Ordering::Relaxed);
                let mut buf = vec![0u8; want.len() + 4];
                match trap(|| f.to_slice(&d, &mut buf).map(|o| o.to_vec())) {
                    Ok(Ok(o)) if o == want => {}
                    other => ctx.violation("crc-encode-slice", format!("{:?} want {}", other.map(|r| r.map(|o| hex(&o))), hex(&want)), order, case()),
                }
                match trap(|| f.to_allocvec(&d)) {
                    Ok(Ok(o)) if o == want => {}
                    other => ctx.violation("crc-encode-allocvec", format!("{:?} want {}", other.map(|r| r.map(|o| hex(&o))), hex(&want)), order, case()),
                }
                if *a == CrcAlgo::C32C {
                    // the std convenience wrapper exists for 32-bit checksums only
                    match trap(|| postcard::to_stdvec_crc32(&d, CRC32_C.digest())) {
                        Ok(Ok(o)) if o == want => {}
                        other => ctx.violation("crc-encode-stdvec", format!("{:?} want {}", other.map(|r| r.map(|o| hex(&o))), hex(&want)), order, case()),
                    }
                }
                if want.len() <= 600 {
                    match trap(|| f.to_hvec::<_, 600>(&d).map(|o| o.to_vec())) {
                        Ok(Ok(o)) if o == want => {}
                        other => ctx.violation("crc-encode-hvec", format!("{:?} want {}", other.map(|r| r.map(|o| hex(&o))), hex(&want)), order, case()),
                    }
                }
                // whatever the capacity, a result that is Ok must be the WHOLE frame (payload followed by its
                // checksum): capacities between len(plain) and len(frame) are where a dropped checksum shows
                if want.len() <= 24 {
                    for cap in plain.len().saturating_sub(1)..=want.len() {
                        enc_calls.fetch_add(1, Ordering::Relaxed);
                        let mut tight = vec![0u8; cap];
                        match trap(|| f.to_slice(&d, &mut tight).map(|o| o.to_vec())) {
                            Ok(Ok(o)) if o != want => ctx.violation("crc-encode-truncated-frame", format!("to_slice with capacity {cap} returned Ok({}) - not the frame {}", hex(&o), hex(&want)), order, case()),
                            Err(p) => ctx.violation("crc-encode-panic", format!("to_slice with capacity {cap}: {p}"), order, case()),
                            _ => {}
                        }
                    }
                    macro_rules! hv {
                        ($($b:literal),*) => {$(
                            enc_calls.fetch_add(1, Ordering::Relaxed);
                            match trap(|| f.to_hvec::<_, $b>(&d).map(|o| o.to_vec())) {
                                Ok(Ok(o)) if o != want => ctx.violation("crc-encode-truncated-frame", format!("heapless capacity {} returned Ok({}) - not the frame {}", $b, hex(&o), hex(&want)), order, case()),
                                Err(p) => ctx.violation("crc-encode-panic", format!("heapless capacity {}: {p}", $b), order, case()),
                                _ => {}
                            }
                        )*};
                    }
                    hv!(0, 1, 2, 3, 4, 5, 6, 7, 8, 9, 10, 12, 16, 20);
                }
                if !algos.contains(a) {
                    continue;
                }
                // decoding with suffixes
                with_shape(s, || {
                    for sfx in [&[][..], &[0x00][..], &[0xFF, 0x80][..]] {
                        let mut x = want.clone();
                        x.extend_from_slice(sfx);
                        dec_calls.fetch_add(1, Ordering::Relaxed);
                        match compare(ctx, *a, s, &x, order | 1, None) {
                            Some(true) => {
                                accepted.fetch_add(1, Ordering::Relaxed);
                            }
                            Some(false) => ctx.violation("crc-valid-frame-rejected", "valid frame rejected".into(), order, case()),
                            None => {}
                        }
                    }
                    // every strict prefix of the frame (truncation inside payload or checksum) must be rejected
                    if want.len() <= 300 {
                        for cut in 0..want.len() {
                            dec_calls.fetch_add(1, Ordering::Relaxed);
                            match compare(ctx, *a, s, &want[..cut], order | 3, Some("truncated frame")) {
                                Some(true) => {}
                                Some(false) => {
                                    rejected.fetch_add(1, Ordering::Relaxed);
                                }
                                None => {}
                            }
                        }
                    }
                    // every single-bit flip of the frame
                    if want.len() <= 40 {
                        for bit in 0..want.len() * 8 {
                            let mut x = want.clone();
                            x[bit / 8] ^= 1 << (bit % 8);
                            let in_checksum = bit / 8 >= plain.len();
                            // a payload flip must be rejected when the decoded length is unchanged
                            let same_len = !dangerous(s, &x) && matches!(real_decode(s, &x), Ok((_, c)) if c == plain.len());
                            let must = if in_checksum { Some("bit flip in checksum") } else if same_len { Some("bit flip in payload, decoded length unchanged") } else { None };
                            flips.fetch_add(1, Ordering::Relaxed);
                            if let Some(acc) = compare(ctx, *a, s, &x, order | 2, must) {
                                if acc {
                                    accepted.fetch_add(1, Ordering::Relaxed);
                                } else {
                                    rejected.fetch_add(1, Ordering::Relaxed);
                                }
                            }
                        }
                    }
                });
            }
        }
    });
    // (2) conversely: all strings over the decoder alphabet for a set of target types
    let targets = vec![
        Shape::U8,
        Shape::U16,
        Shape::Tuple(vec![Shape::U8, Shape::U8]),
        Shape::Bytes,
        Shape::Str,
        Shape::Seq(Box::new(Shape::U8)),
        Shape::Option(Box::new(Shape::Bool)),
    ];
    let strlen = if ctx.quick() { 4 } else { 5 };
    let mut strings: Vec<Vec<u8>> = vec![];
    for l in 0..=strlen {
        vmodel::for_each_string(&A_DEC, l, &mut |s| strings.push(s.to_vec()));
    }
    let narrow: Vec<CrcAlgo> = algos.iter().copied().filter(|a| a.wire_bytes() <= 2).collect();
    let str_calls = AtomicU64::new(0);
    strings.par_chunks(1024).enumerate().for_each(|(ci, chunk)| {
        for (ti, s) in targets.iter().enumerate() {
            with_shape(s, || {
                for (xi, x) in chunk.iter().enumerate() {
                    for (ai, a) in narrow.iter().enumerate() {
                        str_calls.fetch_add(1, Ordering::Relaxed);
                        if let Some(acc) = compare(ctx, *a, s, x, (1u64 << 48) | ((ci * 1024 + xi) as u64) << 8 | (ti as u64) << 4 | ai as u64, None) {
                            if acc {
                                accepted.fetch_add(1, Ordering::Relaxed);
                            } else {
                                rejected.fetch_add(1, Ordering::Relaxed);
                            }
                        }
                    }
                }
            });
        }
    });
    // (3) bursts: frame pool = first two values of every shape with <= 2 nodes
    let pool_corpus = value_corpus(2, 64, 2);
    let mut pool: Vec<(Shape, Vec<u8>)> = vec![];
    for (s, vals) in &pool_corpus {
        for v in vals.iter().take(2) {
            let p = real_plain(v).unwrap_or_else(|| spec_encode(v).unwrap());
            if !p.is_empty() && p.len() <= 16 {
                pool.push((s.clone(), p));
            }
        }
    }
    let bmax: u32 = if ctx.quick() { 8 } else { 16 };
    let bursts = AtomicU64::new(0);
    let mut caps: Vec<String> = vec![];
    for a in &algos {
        if a.width_bits() > bmax {
            caps.push(format!("{}: bursts of length {}..{} represented by all-ones and end-points-only patterns only", a.params().name, bmax + 1, a.width_bits()));
        }
    }
    pool.par_iter().enumerate().for_each(|(pi, (s, plain))| {
        with_shape(s, || {
            for (ai, a) in algos.iter().enumerate() {
                let frame = Framing::Crc(*a).reference(plain);
                let nbits = frame.len() * 8;
                let w = a.width_bits();
                let mut patterns: Vec<(u32, u128)> = vec![]; // (len, pattern with both end bits set)
                for b in 1..=w.min(bmax) {
                    if b == 1 {
                        patterns.push((1, 1));
                    } else {
                        for mid in 0..(1u128 << (b - 2)) {
                            patterns.push((b, 1 | (mid << 1) | (1u128 << (b - 1))));
                        }
                    }
                }
                for b in (bmax + 1)..=w {
                    patterns.push((b, (1u128 << b) - 1));
                    patterns.push((b, 1 | (1u128 << (b - 1))));
                }
                for (b, pat) in &patterns {
                    for off in 0..=(nbits as u32).saturating_sub(*b) {
                        // a burst is contiguous in the order the CRC consumes bits:
                        // most-significant bit first unless the algorithm reflects its input
                        let refin = a.params().refin;
                        let mut x = frame.clone();
                        for i in 0..*b {
                            if (pat >> i) & 1 == 1 {
                                let bit = (off + i) as usize;
                                x[bit / 8] ^= if refin { 1 << (bit % 8) } else { 0x80 >> (bit % 8) };
                            }
                        }
                        let pbits = plain.len() * 8;
                        let in_checksum = (off as usize) >= pbits;
                        let in_payload = (off + *b) as usize <= pbits;
                        let same_len = !dangerous(s, &x) && matches!(real_decode(s, &x), Ok((_, c)) if c == plain.len());
                        // the property names corruptions confined to the checksum and bursts of the payload;
                        // a burst straddling the boundary is only compared with the general oracle
                        let must = if in_checksum {
                            Some("burst confined to checksum")
                        } else if in_payload && same_len {
                            Some("burst <= width inside the payload, decoded length unchanged")
                        } else {
                            None
                        };
                        bursts.fetch_add(1, Ordering::Relaxed);
                        if let Some(acc) = compare(ctx, *a, s, &x, (2u64 << 48) | (pi as u64) << 32 | (ai as u64) << 28 | (*b as u64) << 20 | off as u64, must) {
                            if acc {
                                accepted.fetch_add(1, Ordering::Relaxed);
                            } else {
                                rejected.fetch_add(1, Ordering::Relaxed);
                            }
                        }
                    }
                }
            }
        });
    });
    let total = enc_calls.load(Ordering::Relaxed) + dec_calls.load(Ordering::Relaxed) + flips.load(Ordering::Relaxed) + str_calls.load(Ordering::Relaxed) + bursts.load(Ordering::Relaxed);
    ctx.add_evals(total);
    ctx.add_nontrivial(total);
    ctx.class("encode-calls", enc_calls.load(Ordering::Relaxed));
    ctx.class("valid-frame-decodes", dec_calls.load(Ordering::Relaxed));
    ctx.class("single-bit-flips", flips.load(Ordering::Relaxed));
    ctx.class("arbitrary-strings", str_calls.load(Ordering::Relaxed));
    ctx.class("burst-corruptions", bursts.load(Ordering::Relaxed));
    ctx.class("accepted", accepted.load(Ordering::Relaxed));
    ctx.class("rejected", rejected.load(Ordering::Relaxed));
    ctx.require_class("accepted");
    ctx.require_class("rejected");
    let mut ev = ctx.ev.lock().unwrap();
    ev.bound("algorithms_encode", json!(all_algos.iter().map(|a| a.params().name).collect::<Vec<_>>()));
    ev.bound("algorithms_decode", json!(algos.iter().map(|a| a.params().name).collect::<Vec<_>>()));
    ev.bound("burst_len_max_all_patterns", json!(bmax));
    ev.bound("burst_frame_pool", json!(pool.len()));
    ev.bound("string_len_max", json!(strlen));
    ev.caps_hit = vec![];
    ev.bounds.insert("burst_caps".into(), json!(caps));
    ev.rule = "values x 10 catalogue algorithms (5 widths) x slice/heapless/growable: output = plain ++ LE(bitwise reference CRC); every valid frame x suffixes decodes to value + exact remainder; every single-bit flip of every frame <= 40 bytes; every burst pattern (both end bits set) of length <= min(W,Bmax) at every bit offset of every pooled frame; every string over the decoder alphabet for 8/16-bit checksums; on EVERY input the real accept/reject, value and remainder must equal the oracle 'spec decoder consumes c bytes and x[c..c+W] is the reference checksum of x[..c]'".into();
    ev.sample(json!({"value": "U16(300)", "algorithm": "CRC_16_IBM_SDLC", "frame": "ac 02 <crc16 LE>"}));
    ev.sample(json!({"corruption": "burst 0b1011 at bit offset 5 of a 6-byte CRC-32 frame", "expect": "Err(DeserializeBadCrc)"}));
    ev.assumptions = vec!["reference CRC = Rocksoft model with parameters transcribed from the catalogue, validated on each algorithm's check value".into(), "bursts longer than Bmax: only all-ones and end-points-only patterns (listed under bounds.burst_caps)".into()];
}
