//! Runtime support: panic trap, guard pages, counting allocator, fault slots, violation collector.

use serde_json::{json, Value};
use std::alloc::{GlobalAlloc, Layout, System};
use std::cell::Cell;
use std::collections::BTreeMap;
use std::sync::atomic::{AtomicI32, AtomicU64, AtomicUsize, Ordering};
use std::sync::Mutex;
use vmodel::evidence::Evidence;

// ---------------------------------------------------------------------------------------------
// counting allocator
// ---------------------------------------------------------------------------------------------

pub struct CountingAlloc;

thread_local! {
    static ARMED: Cell<bool> = const { Cell::new(false) };
    static REQUESTED: Cell<u64> = const { Cell::new(0) };
    static LIVE: Cell<i64> = const { Cell::new(0) };
    static PEAK: Cell<i64> = const { Cell::new(0) };
    static CAP: Cell<u64> = const { Cell::new(u64::MAX) };
}

unsafe impl GlobalAlloc for CountingAlloc {
    unsafe fn alloc(&self, l: Layout) -> *mut u8 {
        let _ = ARMED.try_with(|a| {
            if a.get() {
                let r = REQUESTED.with(|r| {
                    let n = r.get() + l.size() as u64;
                    r.set(n);
                    n
                });
                LIVE.with(|v| {
                    let n = v.get() + l.size() as i64;
                    v.set(n);
                    PEAK.with(|p| {
                        if n > p.get() {
                            p.set(n)
                        }
                    });
                });
                let cap = CAP.with(|c| c.get());
                if r > cap {
                    a.set(false);
                    fatal_current_case("ALLOC-CAP", "allocation cap exceeded while decoding");
                }
            }
        });
        System.alloc(l)
    }
    unsafe fn dealloc(&self, p: *mut u8, l: Layout) {
        let _ = ARMED.try_with(|a| {
            if a.get() {
                LIVE.with(|v| v.set(v.get() - l.size() as i64));
            }
        });
        System.dealloc(p, l)
    }
    unsafe fn realloc(&self, p: *mut u8, l: Layout, new_size: usize) -> *mut u8 {
        let _ = ARMED.try_with(|a| {
            if a.get() {
                let grow = new_size as i64 - l.size() as i64;
                let r = REQUESTED.with(|r| {
                    // a realloc requests new_size bytes from the allocator
                    let n = r.get() + new_size as u64;
                    r.set(n);
                    n
                });
                LIVE.with(|v| {
                    let n = v.get() + grow;
                    v.set(n);
                    PEAK.with(|p| {
                        if n > p.get() {
                            p.set(n)
                        }
                    });
                });
                let cap = CAP.with(|c| c.get());
                if r > cap {
                    a.set(false);
                    fatal_current_case("ALLOC-CAP", "allocation cap exceeded while decoding");
                }
            }
        });
        System.realloc(p, l, new_size)
    }
}

pub struct AllocStats {
    pub requested: u64,
    pub peak_live: i64,
}

/// run f with the allocation counters armed (cap = hard limit in requested bytes)
pub fn count_allocs<R>(cap: u64, f: impl FnOnce() -> R) -> (R, AllocStats) {
    REQUESTED.with(|r| r.set(0));
    LIVE.with(|r| r.set(0));
    PEAK.with(|r| r.set(0));
    CAP.with(|c| c.set(cap));
    ARMED.with(|a| a.set(true));
    let r = f();
    ARMED.with(|a| a.set(false));
    let st = AllocStats { requested: REQUESTED.with(|r| r.get()), peak_live: PEAK.with(|r| r.get()) };
    (r, st)
}

// ---------------------------------------------------------------------------------------------
// fault slots: each worker thread publishes the case it is running, as text, so that a SIGSEGV
// handler / allocation-cap trap can write the replay file and the VIOLATION line.
// ---------------------------------------------------------------------------------------------

const NSLOTS: usize = 128;
const SLOT_BYTES: usize = 8192;

struct Slot {
    tid: AtomicI32,
    len: AtomicUsize,
    buf: std::cell::UnsafeCell<[u8; SLOT_BYTES]>,
    /// number of outermost `trap` entries of this thread so far; odd bit 63 clear. 0 = never.
    trap_seq: AtomicU64,
    /// true while the thread is inside an outermost `trap` (the code under test is running)
    in_trap: std::sync::atomic::AtomicBool,
    /// value of trap_seq when the case text was last published
    case_seq: AtomicU64,
}
unsafe impl Sync for Slot {}

static SLOTS: [Slot; NSLOTS] = {
    #[allow(clippy::declare_interior_mutable_const)]
    const S: Slot = Slot {
        tid: AtomicI32::new(0),
        len: AtomicUsize::new(0),
        buf: std::cell::UnsafeCell::new([0; SLOT_BYTES]),
        trap_seq: AtomicU64::new(0),
        in_trap: std::sync::atomic::AtomicBool::new(false),
        case_seq: AtomicU64::new(0),
    };
    [S; NSLOTS]
};
static PROP_ID: Mutex<String> = Mutex::new(String::new());
/// "<root>/replays/" as bytes for the async-signal-safe fault path (set once in set_property)
static REPLAY_PREFIX: std::sync::OnceLock<Vec<u8>> = std::sync::OnceLock::new();

/// root of the verification tree: /verif unless VERIF_ROOT is set (isolated self-test runs)
pub fn root() -> String {
    std::env::var("VERIF_ROOT").unwrap_or_else(|_| "/verif".to_string())
}
static PROP_ID_BYTES: [AtomicU64; 2] = [AtomicU64::new(0), AtomicU64::new(0)];
static FAULT_SEQ: AtomicUsize = AtomicUsize::new(0);

thread_local! {
    static MY_SLOT: Cell<usize> = const { Cell::new(usize::MAX) };
}

fn gettid() -> i32 {
    unsafe { libc::syscall(libc::SYS_gettid) as i32 }
}

fn my_slot() -> usize {
    MY_SLOT.with(|s| {
        if s.get() == usize::MAX {
            let tid = gettid();
            for (i, sl) in SLOTS.iter().enumerate() {
                if sl.tid.compare_exchange(0, tid, Ordering::SeqCst, Ordering::SeqCst).is_ok() {
                    s.set(i);
                    return i;
                }
            }
            panic!("out of fault slots");
        }
        s.get()
    })
}

/// publish the current case (cheap: a memcpy). `text` should be a JSON object.
pub fn set_case(text: &[u8]) {
    let i = my_slot();
    let n = text.len().min(SLOT_BYTES);
    unsafe {
        std::ptr::copy_nonoverlapping(text.as_ptr(), SLOTS[i].buf.get() as *mut u8, n);
    }
    SLOTS[i].len.store(n, Ordering::Release);
    SLOTS[i].case_seq.store(SLOTS[i].trap_seq.load(Ordering::Relaxed), Ordering::Relaxed);
}

pub fn set_property(id: &str) {
    *PROP_ID.lock().unwrap() = id.to_string();
    let _ = REPLAY_PREFIX.set(format!("{}/replays/", root()).into_bytes());
    let mut b = [0u8; 16];
    b[..id.len().min(16)].copy_from_slice(&id.as_bytes()[..id.len().min(16)]);
    PROP_ID_BYTES[0].store(u64::from_le_bytes(b[..8].try_into().unwrap()), Ordering::SeqCst);
    PROP_ID_BYTES[1].store(u64::from_le_bytes(b[8..].try_into().unwrap()), Ordering::SeqCst);
}

fn write_all(fd: i32, mut b: &[u8]) {
    while !b.is_empty() {
        let n = unsafe { libc::write(fd, b.as_ptr() as *const libc::c_void, b.len()) };
        if n <= 0 {
            return;
        }
        b = &b[n as usize..];
    }
}

/// async-signal-safe: write the current thread's case to a replay file, print VIOLATION, _exit(1)
pub fn fatal_current_case(kind: &str, what: &str) -> ! {
    fatal_case_of(gettid(), kind, what)
}

/// same for the case published by thread `tid` (used by the non-termination watchdog)
pub fn fatal_case_of(tid: i32, kind: &str, what: &str) -> ! {
    // several worker threads can fault at the same moment: the first one reports, the others wait
    // for the process to exit
    if FAULT_SEQ.fetch_add(1, Ordering::SeqCst) > 0 {
        loop {
            unsafe { libc::pause() };
        }
    }
    let mut idb = [0u8; 16];
    idb[..8].copy_from_slice(&PROP_ID_BYTES[0].load(Ordering::SeqCst).to_le_bytes());
    idb[8..].copy_from_slice(&PROP_ID_BYTES[1].load(Ordering::SeqCst).to_le_bytes());
    let idlen = idb.iter().position(|&b| b == 0).unwrap_or(16);
    let id = &idb[..idlen];
    // path: /verif/replays/<id>-fault.json
    let mut path = [0u8; 512];
    let prefix: &[u8] = REPLAY_PREFIX.get().map(|v| v.as_slice()).unwrap_or(b"/verif/replays/");
    let mut n = 0;
    path[n..n + prefix.len()].copy_from_slice(prefix);
    n += prefix.len();
    path[n..n + id.len()].copy_from_slice(id);
    n += id.len();
    let suffix = b"-fault.json\0";
    path[n..n + suffix.len()].copy_from_slice(suffix);
    let plen = n + suffix.len() - 1;
    let fd = unsafe { libc::open(path.as_ptr() as *const libc::c_char, libc::O_WRONLY | libc::O_CREAT | libc::O_TRUNC, 0o644) };
    if fd >= 0 {
        write_all(fd, b"{\"property\":\"");
        write_all(fd, id);
        write_all(fd, b"\",\"fault\":\"");
        write_all(fd, kind.as_bytes());
        write_all(fd, b"\",\"what\":\"");
        write_all(fd, what.as_bytes());
        write_all(fd, b"\",\"case\":");
        let mut found = false;
        for sl in SLOTS.iter() {
            if sl.tid.load(Ordering::SeqCst) == tid {
                let len = sl.len.load(Ordering::Acquire);
                let b = unsafe { std::slice::from_raw_parts(sl.buf.get() as *const u8, len) };
                if len > 0 {
                    write_all(fd, b);
                    found = true;
                }
                break;
            }
        }
        if !found {
            write_all(fd, b"null");
        }
        write_all(fd, b"}\n");
        unsafe { libc::close(fd) };
    }
    write_all(1, b"\nVIOLATION property=");
    write_all(1, id);
    write_all(1, b" replay=");
    write_all(1, &path[..plen]);
    write_all(1, b"\n");
    write_all(2, kind.as_bytes());
    write_all(2, b": ");
    write_all(2, what.as_bytes());
    write_all(2, b"\n");
    FAULT_SEQ.fetch_add(1, Ordering::SeqCst);
    unsafe { libc::_exit(1) }
}

extern "C" fn segv_handler(_sig: i32, _info: *mut libc::siginfo_t, _ctx: *mut libc::c_void) {
    fatal_current_case("SIGSEGV", "memory access outside the supplied buffer (guard page hit)");
}

/// abort() while the code under test runs (inside `trap`): a panic that cannot unwind - e.g. one of
/// std's unsafe-precondition checks (`slice::from_raw_parts`, `get_unchecked`, `copy_nonoverlapping`)
/// firing, which means the library handed std an out-of-bounds range - or an explicit abort. That is
/// an observation about the library (reported like a guard-page hit). An abort outside `trap` is a
/// harness failure: fall through to the default action (status 134, reported as machinery).
extern "C" fn abrt_handler(_sig: i32, _info: *mut libc::siginfo_t, _ctx: *mut libc::c_void) {
    if IN_TRAP.with(|c| c.get()) > 0 {
        fatal_current_case("SIGABRT", "abort inside the library under test (non-unwinding panic: an unsafe precondition check fired, i.e. an out-of-bounds or misaligned raw access was about to happen)");
    }
    unsafe {
        libc::signal(libc::SIGABRT, libc::SIG_DFL);
    }
}

pub fn install_fault_handlers() {
    unsafe {
        // alternate stack for the main thread; worker threads get theirs in `thread_init`
        thread_init();
        let mut sa: libc::sigaction = std::mem::zeroed();
        sa.sa_sigaction = segv_handler as usize;
        sa.sa_flags = libc::SA_SIGINFO | libc::SA_ONSTACK;
        libc::sigemptyset(&mut sa.sa_mask);
        libc::sigaction(libc::SIGSEGV, &sa, std::ptr::null_mut());
        libc::sigaction(libc::SIGBUS, &sa, std::ptr::null_mut());
        let mut sb: libc::sigaction = std::mem::zeroed();
        sb.sa_sigaction = abrt_handler as usize;
        sb.sa_flags = libc::SA_SIGINFO | libc::SA_ONSTACK;
        libc::sigemptyset(&mut sb.sa_mask);
        libc::sigaction(libc::SIGABRT, &sb, std::ptr::null_mut());
    }
}

pub fn thread_init() {
    unsafe {
        let sz = 64 * 1024;
        let p = libc::mmap(std::ptr::null_mut(), sz, libc::PROT_READ | libc::PROT_WRITE, libc::MAP_PRIVATE | libc::MAP_ANONYMOUS, -1, 0);
        let ss = libc::stack_t { ss_sp: p, ss_flags: 0, ss_size: sz };
        libc::sigaltstack(&ss, std::ptr::null_mut());
    }
    let _ = my_slot();
}

// ---------------------------------------------------------------------------------------------
// guard-page arena
// ---------------------------------------------------------------------------------------------

/// A buffer of `cap` usable bytes with PROT_NONE pages directly before and after the usable
/// window. `flush_end` places a slice so that it ENDS at the guard page; `flush_start` so that
/// it STARTS right after the leading guard page.
pub struct GuardArena {
    base: *mut u8,
    total: usize,
    page: usize,
    usable: usize,
}
unsafe impl Send for GuardArena {}

impl GuardArena {
    pub fn new(min_usable: usize) -> Self {
        let page = 4096usize;
        let usable = ((min_usable + page - 1) / page).max(1) * page;
        let total = usable + 2 * page;
        unsafe {
            let base = libc::mmap(std::ptr::null_mut(), total, libc::PROT_READ | libc::PROT_WRITE, libc::MAP_PRIVATE | libc::MAP_ANONYMOUS, -1, 0)
                as *mut u8;
            assert!(!base.is_null() && base as isize != -1);
            libc::mprotect(base as *mut libc::c_void, page, libc::PROT_NONE);
            libc::mprotect(base.add(page + usable) as *mut libc::c_void, page, libc::PROT_NONE);
            GuardArena { base, total, page, usable }
        }
    }
    pub fn usable(&self) -> usize {
        self.usable
    }
    /// whole usable window
    pub fn window(&mut self) -> &mut [u8] {
        unsafe { std::slice::from_raw_parts_mut(self.base.add(self.page), self.usable) }
    }
    /// a slice of `len` bytes ending exactly at the trailing guard page
    pub fn flush_end(&mut self, len: usize) -> &mut [u8] {
        assert!(len <= self.usable);
        unsafe { std::slice::from_raw_parts_mut(self.base.add(self.page + self.usable - len), len) }
    }
    /// a slice of `len` bytes starting exactly after the leading guard page
    pub fn flush_start(&mut self, len: usize) -> &mut [u8] {
        assert!(len <= self.usable);
        unsafe { std::slice::from_raw_parts_mut(self.base.add(self.page), len) }
    }
    /// copy `data` flush against the end / start and return it
    pub fn place(&mut self, data: &[u8], at_end: bool) -> &mut [u8] {
        let s = if at_end { self.flush_end(data.len()) } else { self.flush_start(data.len()) };
        s.copy_from_slice(data);
        s
    }
}
impl Drop for GuardArena {
    fn drop(&mut self) {
        unsafe {
            libc::munmap(self.base as *mut libc::c_void, self.total);
        }
    }
}

thread_local! {
    static ARENA: std::cell::RefCell<Option<GuardArena>> = const { std::cell::RefCell::new(None) };
}

/// run f with this thread's arena (usable >= need)
pub fn with_arena<R>(need: usize, f: impl FnOnce(&mut GuardArena) -> R) -> R {
    ARENA.with(|a| {
        let mut a = a.borrow_mut();
        if a.as_ref().map(|x| x.usable() < need).unwrap_or(true) {
            *a = Some(GuardArena::new(need.max(8192)));
        }
        f(a.as_mut().unwrap())
    })
}

// ---------------------------------------------------------------------------------------------
// panic trap
// ---------------------------------------------------------------------------------------------

thread_local! {
    static IN_TRAP: Cell<u32> = const { Cell::new(0) };
}

pub fn install_panic_hook() {
    static LOUD: AtomicUsize = AtomicUsize::new(0);
    std::panic::set_hook(Box::new(move |info| {
        // panics inside `trap` are observations; panics anywhere else are harness failures: print the first
        // few (message and location only - a symbolised backtrace per panicking work item of a parallel
        // loop takes minutes and looks like a hang)
        if IN_TRAP.with(|c| c.get()) == 0 {
            let n = LOUD.fetch_add(1, Ordering::Relaxed);
            if n < 5 {
                eprintln!("HARNESS PANIC (outside the panic trap): {info}");
            } else if n == 5 {
                eprintln!("HARNESS PANIC: further panics not shown");
            }
        }
    }));
}

/// run f, turning a panic into Err(message)
pub fn trap<R>(f: impl FnOnce() -> R) -> Result<R, String> {
    let depth = IN_TRAP.with(|c| {
        c.set(c.get() + 1);
        c.get()
    });
    let slot = if depth == 1 { Some(my_slot()) } else { None };
    if let Some(i) = slot {
        SLOTS[i].trap_seq.fetch_add(1, Ordering::Relaxed);
        SLOTS[i].in_trap.store(true, Ordering::Relaxed);
    }
    let r = std::panic::catch_unwind(std::panic::AssertUnwindSafe(f));
    if let Some(i) = slot {
        SLOTS[i].in_trap.store(false, Ordering::Relaxed);
    }
    IN_TRAP.with(|c| c.set(c.get() - 1));
    r.map_err(|e| {
        if let Some(s) = e.downcast_ref::<&str>() {
            s.to_string()
        } else if let Some(s) = e.downcast_ref::<String>() {
            s.clone()
        } else {
            "panic".to_string()
        }
    })
}

pub fn loud_panics() {}

/// Non-termination watchdog. The code under test always runs inside `trap`, one case at a time, and a case
/// takes microseconds; a thread that has been inside the SAME outermost `trap` call for `limit_s` seconds
/// is reported as a hang of the library on that case (VIOLATION + exit 1, like a guard-page hit). Checks
/// that legitimately run long inside one `trap` call do not exist (the isolated C18 subprocesses have
/// their own 10 s watchdog and are not run under `trap`).
pub fn start_watchdog(limit_s: u64) {
    std::thread::Builder::new()
        .name("watchdog".into())
        .spawn(move || {
            let period = 5u64;
            let mut last = vec![(0u64, 0u64); NSLOTS]; // (trap_seq seen, seconds it has been unchanged while in_trap)
            loop {
                std::thread::sleep(std::time::Duration::from_secs(period));
                for (i, sl) in SLOTS.iter().enumerate() {
                    let tid = sl.tid.load(Ordering::Relaxed);
                    if tid == 0 {
                        continue;
                    }
                    let seq = sl.trap_seq.load(Ordering::Relaxed);
                    if sl.in_trap.load(Ordering::Relaxed) && seq == last[i].0 {
                        last[i].1 += period;
                        if last[i].1 >= limit_s {
                            if !(1..=4).contains(&seq.wrapping_sub(sl.case_seq.load(Ordering::Relaxed))) {
                                // the published text belongs to an earlier call: do not attribute it
                                sl.len.store(0, Ordering::Release);
                            }
                            fatal_case_of(tid, "HANG", "the library call on this case has not returned (non-termination watchdog)");
                        }
                    } else {
                        last[i] = (seq, 0);
                    }
                }
            }
        })
        .ok();
}

// ---------------------------------------------------------------------------------------------
// violation collector + known findings
// ---------------------------------------------------------------------------------------------

#[derive(Clone, Debug, serde::Deserialize)]
pub struct KnownFinding {
    pub property: String,
    pub status: String,
    pub class: String,
    pub what: String,
    #[serde(default)]
    pub commit: Option<String>,
    #[serde(default)]
    pub example: Option<Value>,
}

#[derive(Clone, Debug)]
pub struct Violation {
    pub class: String,
    pub what: String,
    pub case: Value,
    pub order: u64,
}

#[derive(Clone, Copy, PartialEq, Eq, Debug)]
pub enum Tier {
    Quick,
    Thorough,
}

pub struct Ctx {
    pub id: String,
    pub tier: Tier,
    pub seed: u64,
    pub ev: Mutex<Evidence>,
    viols: Mutex<BTreeMap<String, (u64, Violation)>>,
    known: Vec<KnownFinding>,
    pub evals: AtomicU64,
    pub nontrivial: AtomicU64,
    classes: Mutex<BTreeMap<String, u64>>,
    pub machinery_errors: Mutex<Vec<String>>,
}

impl Ctx {
    pub fn new(id: &str, tier: Tier, seed: u64, level: &str) -> Self {
        let known: Vec<KnownFinding> = match std::fs::read_to_string(format!("{}/known_findings.json", root())) {
            Ok(s) => serde_json::from_str(&s).expect("known_findings.json must parse"),
            Err(_) => vec![],
        };
        set_property(id);
        if let Ok(rd) = std::fs::read_dir(format!("{}/replays", root())) {
            for e in rd.flatten() {
                let n = e.file_name().to_string_lossy().to_string();
                if n.starts_with(&format!("{id}-")) {
                    let _ = std::fs::remove_file(e.path());
                }
            }
        }
        let tier_s = if tier == Tier::Quick { "quick" } else { "thorough" };
        Ctx {
            id: id.to_string(),
            tier,
            seed,
            ev: Mutex::new(Evidence::new(id, tier_s, seed, level)),
            viols: Mutex::new(BTreeMap::new()),
            known: known.into_iter().filter(|k| k.property == id).collect(),
            evals: AtomicU64::new(0),
            nontrivial: AtomicU64::new(0),
            classes: Mutex::new(BTreeMap::new()),
            machinery_errors: Mutex::new(vec![]),
        }
    }
    pub fn quick(&self) -> bool {
        self.tier == Tier::Quick
    }
    pub fn add_evals(&self, n: u64) {
        self.evals.fetch_add(n, Ordering::Relaxed);
    }
    pub fn add_nontrivial(&self, n: u64) {
        self.nontrivial.fetch_add(n, Ordering::Relaxed);
    }
    pub fn class(&self, name: &str, n: u64) {
        *self.classes.lock().unwrap().entry(name.to_string()).or_insert(0) += n;
    }
    pub fn merge_classes(&self, m: &BTreeMap<String, u64>) {
        let mut c = self.classes.lock().unwrap();
        for (k, v) in m {
            *c.entry(k.clone()).or_insert(0) += v;
        }
    }
    pub fn class_count(&self, name: &str) -> u64 {
        self.classes.lock().unwrap().get(name).copied().unwrap_or(0)
    }
    pub fn machinery(&self, msg: String) {
        self.machinery_errors.lock().unwrap().push(msg);
    }
    /// require that an outcome class was observed (vacuity guard): machinery failure otherwise
    pub fn require_class(&self, name: &str) {
        if self.class_count(name) == 0 {
            self.machinery(format!("vacuity guard: outcome class '{name}' never observed"));
        }
    }
    /// record a violation. `order` = position in the enumeration (smallest is reported).
    pub fn violation(&self, class: &str, what: String, order: u64, case: Value) {
        let mut v = self.viols.lock().unwrap();
        let e = v.entry(class.to_string()).or_insert_with(|| (0, Violation { class: class.to_string(), what: what.clone(), case: case.clone(), order }));
        e.0 += 1;
        if order < e.1.order {
            e.1 = Violation { class: class.to_string(), what, case, order };
        }
    }
    /// (class, what, minimal case) of every class seen so far
    pub fn violations_snapshot(&self) -> Vec<(String, String, Value)> {
        self.viols.lock().unwrap().values().map(|(_, v)| (v.class.clone(), v.what.clone(), v.case.clone())).collect()
    }
    pub fn violation_count(&self) -> u64 {
        self.viols.lock().unwrap().values().map(|x| x.0).sum()
    }
    /// finish: write evidence, print findings, return exit code
    pub fn finish(&self) -> i32 {
        loud_panics();
        let viols = self.viols.lock().unwrap();
        let mut ev = self.ev.lock().unwrap();
        ev.evaluations += self.evals.load(Ordering::Relaxed);
        ev.distinct_nontrivial += self.nontrivial.load(Ordering::Relaxed);
        for (k, v) in self.classes.lock().unwrap().iter() {
            ev.class(k, *v);
        }
        let mut unknown: Vec<&(u64, Violation)> = vec![];
        for (class, cv) in viols.iter() {
            let k = self.known.iter().find(|k| &k.class == class && k.status == "known");
            match k {
                Some(k) => {
                    println!("KNOWN-FINDING: property={} class={} occurrences={} {}", self.id, class, cv.0, k.what);
                    ev.known_findings.push(json!({"class": class, "occurrences": cv.0, "example": cv.1.case, "observed": cv.1.what}));
                }
                None => unknown.push(cv),
            }
        }
        // a known finding that no longer reproduces is worth a note (not an error)
        for k in self.known.iter().filter(|k| k.status == "known") {
            if !viols.contains_key(&k.class) {
                println!("NOTE: known finding class={} of {} did not reproduce in this run", k.class, self.id);
            }
        }
        let merrs = self.machinery_errors.lock().unwrap();
        ev.violations = unknown.iter().map(|x| x.0 as i64).sum();
        let mut code = 0;
        if !unknown.is_empty() {
            code = 1;
            std::fs::create_dir_all(format!("{}/replays", root())).ok();
            for (i, cv) in unknown.iter().enumerate() {
                let path = format!("{}/replays/{}-{}.json", root(), self.id, sanitize(&cv.1.class));
                let doc = json!({
                    "property": self.id,
                    "tier": if self.tier == Tier::Quick { "quick" } else { "thorough" },
                    "class": cv.1.class,
                    "occurrences": cv.0,
                    "what": cv.1.what,
                    "case": cv.1.case,
                });
                std::fs::write(&path, serde_json::to_string_pretty(&doc).unwrap()).ok();
                eprintln!("violation[{}] class={} occurrences={}: {}", i, cv.1.class, cv.0, cv.1.what);
                println!("VIOLATION property={} replay={}", self.id, path);
            }
        }
        if code == 0 && !merrs.is_empty() {
            for m in merrs.iter() {
                eprintln!("MACHINERY: {m}");
            }
            ev.caps_hit.push(format!("machinery errors: {}", merrs.len()));
            code = 2;
        }
        if let Err(e) = ev.write(&format!("{}/evidence", root())) {
            eprintln!("MACHINERY: cannot write evidence: {e}");
            if code == 0 {
                code = 2;
            }
        }
        let j = ev.to_json();
        println!(
            "{} {}: evaluations={} distinct_nontrivial={} states={:?} transitions={:?} violations={} exhaustive={} wall={:.1}s",
            self.id,
            ev.tier,
            ev.evaluations,
            ev.distinct_nontrivial,
            ev.states,
            ev.transitions,
            ev.violations,
            j["coverage"]["exhaustive"],
            ev.start.elapsed().as_secs_f64()
        );
        code
    }
}

fn sanitize(s: &str) -> String {
    s.chars().map(|c| if c.is_ascii_alphanumeric() || c == '-' || c == '_' { c } else { '_' }).collect()
}

pub fn hex(b: &[u8]) -> String {
    vmodel::hex(b)
}
