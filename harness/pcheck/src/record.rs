//! An independent recording `Serializer`: captures the data-model call tree of any `Serialize`.
//! Reports for is_human_readable() what the real postcard serializer reports (asked once), so that the
//! recorded tree is what the type's Serialize impl does *under postcard*.

use serde::ser::{self, Serialize};
use std::fmt::Display;
use vmodel::shape::{VVal, Val};

#[derive(Clone, Debug, PartialEq)]
pub enum Rec {
    Bool(bool),
    I8(i8),
    I16(i16),
    I32(i32),
    I64(i64),
    I128(i128),
    U8(u8),
    U16(u16),
    U32(u32),
    U64(u64),
    U128(u128),
    F32(u32),
    F64(u64),
    Char(char),
    Str(String),
    Bytes(Vec<u8>),
    None,
    Some(Box<Rec>),
    Unit,
    UnitStruct(&'static str),
    UnitVariant { name: &'static str, idx: u32, variant: &'static str },
    NewtypeStruct(&'static str, Box<Rec>),
    NewtypeVariant { name: &'static str, idx: u32, variant: &'static str, inner: Box<Rec> },
    Seq(Option<usize>, Vec<Rec>),
    Tuple(usize, Vec<Rec>),
    TupleStruct(&'static str, usize, Vec<Rec>),
    TupleVariant { name: &'static str, idx: u32, variant: &'static str, len: usize, fields: Vec<Rec> },
    Map(Option<usize>, Vec<(Rec, Rec)>),
    Struct(&'static str, usize, Vec<(&'static str, Rec)>),
    StructVariant { name: &'static str, idx: u32, variant: &'static str, len: usize, fields: Vec<(&'static str, Rec)> },
}

#[derive(Debug)]
pub struct RecErr(pub String);
impl Display for RecErr {
    fn fmt(&self, f: &mut std::fmt::Formatter<'_>) -> std::fmt::Result {
        f.write_str(&self.0)
    }
}
impl std::error::Error for RecErr {}
impl ser::Error for RecErr {
    fn custom<T: Display>(msg: T) -> Self {
        RecErr(msg.to_string())
    }
}

pub struct Recorder;

pub fn record_tree<T: Serialize + ?Sized>(v: &T) -> Result<Rec, RecErr> {
    v.serialize(Recorder)
}

/// the Val denoted by the recorded tree (names dropped)
pub fn record<T: Serialize + ?Sized>(v: &T) -> Result<Val, String> {
    record_tree(v).map(|r| r.to_val()).map_err(|e| e.0)
}

impl Rec {
    pub fn to_val(&self) -> Val {
        match self {
            Rec::Bool(x) => Val::Bool(*x),
            Rec::I8(x) => Val::I8(*x),
            Rec::I16(x) => Val::I16(*x),
            Rec::I32(x) => Val::I32(*x),
            Rec::I64(x) => Val::I64(*x),
            Rec::I128(x) => Val::I128(*x),
            Rec::U8(x) => Val::U8(*x),
            Rec::U16(x) => Val::U16(*x),
            Rec::U32(x) => Val::U32(*x),
            Rec::U64(x) => Val::U64(*x),
            Rec::U128(x) => Val::U128(*x),
            Rec::F32(x) => Val::F32(*x),
            Rec::F64(x) => Val::F64(*x),
            Rec::Char(c) => Val::Char(*c),
            Rec::Str(s) => Val::Str(s.clone()),
            Rec::Bytes(b) => Val::Bytes(b.clone()),
            Rec::None => Val::None,
            Rec::Some(x) => Val::Some(Box::new(x.to_val())),
            Rec::Unit => Val::Unit,
            Rec::UnitStruct(_) => Val::UnitStruct,
            Rec::UnitVariant { idx, .. } => Val::Variant { pos: 0, idx: *idx, data: VVal::Unit },
            Rec::NewtypeStruct(_, x) => Val::NewtypeStruct(Box::new(x.to_val())),
            Rec::NewtypeVariant { idx, inner, .. } => Val::Variant { pos: 0, idx: *idx, data: VVal::Newtype(Box::new(inner.to_val())) },
            Rec::Seq(Some(_), l) => Val::Seq(l.iter().map(|x| x.to_val()).collect()),
            Rec::Seq(None, l) => Val::SeqNoLen(l.iter().map(|x| x.to_val()).collect()),
            Rec::Tuple(_, l) => Val::Tuple(l.iter().map(|x| x.to_val()).collect()),
            Rec::TupleStruct(_, _, l) => Val::TupleStruct(l.iter().map(|x| x.to_val()).collect()),
            Rec::TupleVariant { idx, fields, .. } => {
                Val::Variant { pos: 0, idx: *idx, data: VVal::Tuple(fields.iter().map(|x| x.to_val()).collect()) }
            }
            Rec::Map(Some(_), l) => Val::Map(l.iter().map(|(k, v)| (k.to_val(), v.to_val())).collect()),
            Rec::Map(None, l) => Val::MapNoLen(l.iter().map(|(k, v)| (k.to_val(), v.to_val())).collect()),
            Rec::Struct(_, _, l) => Val::Struct(l.iter().map(|(_, x)| x.to_val()).collect()),
            Rec::StructVariant { idx, fields, .. } => {
                Val::Variant { pos: 0, idx: *idx, data: VVal::Struct(fields.iter().map(|(_, x)| x.to_val()).collect()) }
            }
        }
    }
}

pub struct SeqRec(Option<usize>, Vec<Rec>);
pub struct TupRec(usize, Vec<Rec>);
pub struct TupStructRec(&'static str, usize, Vec<Rec>);
pub struct TupVarRec(&'static str, u32, &'static str, usize, Vec<Rec>);
pub struct MapRec(Option<usize>, Vec<(Rec, Rec)>, Option<Rec>);
pub struct StructRec(&'static str, usize, Vec<(&'static str, Rec)>);
pub struct StructVarRec(&'static str, u32, &'static str, usize, Vec<(&'static str, Rec)>);

impl ser::Serializer for Recorder {
    type Ok = Rec;
    type Error = RecErr;
    type SerializeSeq = SeqRec;
    type SerializeTuple = TupRec;
    type SerializeTupleStruct = TupStructRec;
    type SerializeTupleVariant = TupVarRec;
    type SerializeMap = MapRec;
    type SerializeStruct = StructRec;
    type SerializeStructVariant = StructVarRec;

    fn is_human_readable(&self) -> bool {
        static HR: std::sync::OnceLock<bool> = std::sync::OnceLock::new();
        *HR.get_or_init(|| {
            let mut real = postcard::Serializer { output: postcard::ser_flavors::AllocVec::new() };
            serde::Serializer::is_human_readable(&&mut real)
        })
    }
    fn serialize_bool(self, v: bool) -> Result<Rec, RecErr> {
        Ok(Rec::Bool(v))
    }
    fn serialize_i8(self, v: i8) -> Result<Rec, RecErr> {
        Ok(Rec::I8(v))
    }
    fn serialize_i16(self, v: i16) -> Result<Rec, RecErr> {
        Ok(Rec::I16(v))
    }
    fn serialize_i32(self, v: i32) -> Result<Rec, RecErr> {
        Ok(Rec::I32(v))
    }
    fn serialize_i64(self, v: i64) -> Result<Rec, RecErr> {
        Ok(Rec::I64(v))
    }
    fn serialize_i128(self, v: i128) -> Result<Rec, RecErr> {
        Ok(Rec::I128(v))
    }
    fn serialize_u8(self, v: u8) -> Result<Rec, RecErr> {
        Ok(Rec::U8(v))
    }
    fn serialize_u16(self, v: u16) -> Result<Rec, RecErr> {
        Ok(Rec::U16(v))
    }
    fn serialize_u32(self, v: u32) -> Result<Rec, RecErr> {
        Ok(Rec::U32(v))
    }
    fn serialize_u64(self, v: u64) -> Result<Rec, RecErr> {
        Ok(Rec::U64(v))
    }
    fn serialize_u128(self, v: u128) -> Result<Rec, RecErr> {
        Ok(Rec::U128(v))
    }
    fn serialize_f32(self, v: f32) -> Result<Rec, RecErr> {
        Ok(Rec::F32(v.to_bits()))
    }
    fn serialize_f64(self, v: f64) -> Result<Rec, RecErr> {
        Ok(Rec::F64(v.to_bits()))
    }
    fn serialize_char(self, v: char) -> Result<Rec, RecErr> {
        Ok(Rec::Char(v))
    }
    fn serialize_str(self, v: &str) -> Result<Rec, RecErr> {
        Ok(Rec::Str(v.to_string()))
    }
    fn serialize_bytes(self, v: &[u8]) -> Result<Rec, RecErr> {
        Ok(Rec::Bytes(v.to_vec()))
    }
    fn serialize_none(self) -> Result<Rec, RecErr> {
        Ok(Rec::None)
    }
    fn serialize_some<T: ?Sized + Serialize>(self, value: &T) -> Result<Rec, RecErr> {
        Ok(Rec::Some(Box::new(value.serialize(Recorder)?)))
    }
    fn serialize_unit(self) -> Result<Rec, RecErr> {
        Ok(Rec::Unit)
    }
    fn serialize_unit_struct(self, name: &'static str) -> Result<Rec, RecErr> {
        Ok(Rec::UnitStruct(name))
    }
    fn serialize_unit_variant(self, name: &'static str, idx: u32, variant: &'static str) -> Result<Rec, RecErr> {
        Ok(Rec::UnitVariant { name, idx, variant })
    }
    fn serialize_newtype_struct<T: ?Sized + Serialize>(self, name: &'static str, value: &T) -> Result<Rec, RecErr> {
        Ok(Rec::NewtypeStruct(name, Box::new(value.serialize(Recorder)?)))
    }
    fn serialize_newtype_variant<T: ?Sized + Serialize>(
        self,
        name: &'static str,
        idx: u32,
        variant: &'static str,
        value: &T,
    ) -> Result<Rec, RecErr> {
        Ok(Rec::NewtypeVariant { name, idx, variant, inner: Box::new(value.serialize(Recorder)?) })
    }
    fn serialize_seq(self, len: Option<usize>) -> Result<SeqRec, RecErr> {
        Ok(SeqRec(len, vec![]))
    }
    fn serialize_tuple(self, len: usize) -> Result<TupRec, RecErr> {
        Ok(TupRec(len, vec![]))
    }
    fn serialize_tuple_struct(self, name: &'static str, len: usize) -> Result<TupStructRec, RecErr> {
        Ok(TupStructRec(name, len, vec![]))
    }
    fn serialize_tuple_variant(self, name: &'static str, idx: u32, variant: &'static str, len: usize) -> Result<TupVarRec, RecErr> {
        Ok(TupVarRec(name, idx, variant, len, vec![]))
    }
    fn serialize_map(self, len: Option<usize>) -> Result<MapRec, RecErr> {
        Ok(MapRec(len, vec![], None))
    }
    fn serialize_struct(self, name: &'static str, len: usize) -> Result<StructRec, RecErr> {
        Ok(StructRec(name, len, vec![]))
    }
    fn serialize_struct_variant(self, name: &'static str, idx: u32, variant: &'static str, len: usize) -> Result<StructVarRec, RecErr> {
        Ok(StructVarRec(name, idx, variant, len, vec![]))
    }
    fn collect_str<T: ?Sized + Display>(self, value: &T) -> Result<Rec, RecErr> {
        Ok(Rec::Str(value.to_string()))
    }
}

impl ser::SerializeSeq for SeqRec {
    type Ok = Rec;
    type Error = RecErr;
    fn serialize_element<T: ?Sized + Serialize>(&mut self, value: &T) -> Result<(), RecErr> {
        self.1.push(value.serialize(Recorder)?);
        Ok(())
    }
    fn end(self) -> Result<Rec, RecErr> {
        Ok(Rec::Seq(self.0, self.1))
    }
}
impl ser::SerializeTuple for TupRec {
    type Ok = Rec;
    type Error = RecErr;
    fn serialize_element<T: ?Sized + Serialize>(&mut self, value: &T) -> Result<(), RecErr> {
        self.1.push(value.serialize(Recorder)?);
        Ok(())
    }
    fn end(self) -> Result<Rec, RecErr> {
        Ok(Rec::Tuple(self.0, self.1))
    }
}
impl ser::SerializeTupleStruct for TupStructRec {
    type Ok = Rec;
    type Error = RecErr;
    fn serialize_field<T: ?Sized + Serialize>(&mut self, value: &T) -> Result<(), RecErr> {
        self.2.push(value.serialize(Recorder)?);
        Ok(())
    }
    fn end(self) -> Result<Rec, RecErr> {
        Ok(Rec::TupleStruct(self.0, self.1, self.2))
    }
}
impl ser::SerializeTupleVariant for TupVarRec {
    type Ok = Rec;
    type Error = RecErr;
    fn serialize_field<T: ?Sized + Serialize>(&mut self, value: &T) -> Result<(), RecErr> {
        self.4.push(value.serialize(Recorder)?);
        Ok(())
    }
    fn end(self) -> Result<Rec, RecErr> {
        Ok(Rec::TupleVariant { name: self.0, idx: self.1, variant: self.2, len: self.3, fields: self.4 })
    }
}
impl ser::SerializeMap for MapRec {
    type Ok = Rec;
    type Error = RecErr;
    fn serialize_key<T: ?Sized + Serialize>(&mut self, key: &T) -> Result<(), RecErr> {
        self.2 = Some(key.serialize(Recorder)?);
        Ok(())
    }
    fn serialize_value<T: ?Sized + Serialize>(&mut self, value: &T) -> Result<(), RecErr> {
        let k = self.2.take().ok_or_else(|| RecErr("value without key".into()))?;
        self.1.push((k, value.serialize(Recorder)?));
        Ok(())
    }
    fn end(self) -> Result<Rec, RecErr> {
        Ok(Rec::Map(self.0, self.1))
    }
}
impl ser::SerializeStruct for StructRec {
    type Ok = Rec;
    type Error = RecErr;
    fn serialize_field<T: ?Sized + Serialize>(&mut self, key: &'static str, value: &T) -> Result<(), RecErr> {
        self.2.push((key, value.serialize(Recorder)?));
        Ok(())
    }
    fn end(self) -> Result<Rec, RecErr> {
        Ok(Rec::Struct(self.0, self.1, self.2))
    }
}
impl ser::SerializeStructVariant for StructVarRec {
    type Ok = Rec;
    type Error = RecErr;
    fn serialize_field<T: ?Sized + Serialize>(&mut self, key: &'static str, value: &T) -> Result<(), RecErr> {
        self.4.push((key, value.serialize(Recorder)?));
        Ok(())
    }
    fn end(self) -> Result<Rec, RecErr> {
        Ok(Rec::StructVariant { name: self.0, idx: self.1, variant: self.2, len: self.3, fields: self.4 })
    }
}
