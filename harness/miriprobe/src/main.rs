//! Reduced exhaustive enumerations meant to be run under Miri (`cargo +nightly miri run -p miriprobe -- C04`):
//! an extra undefined-behaviour monitor for the unsafe slice readers/writers, the sliding scratch
//! buffer, the in-place COBS path and the accumulator. The enumeration is what makes it a
//! for-all statement (within the reduced bound); Miri only watches each execution.

use postcard::accumulator::{CobsAccumulator, FeedResult};
use serde::de::DeserializeSeed;
use vmodel::glue::{AsData, ShapeSeed};
use vmodel::shape::*;

const A_DEC: [u8; 7] = [0x00, 0x01, 0x02, 0x05, 0x7F, 0x80, 0xFF];
const A_COBS: [u8; 5] = [0x00, 0x01, 0x02, 0x03, 0xFF];

fn decode(shape: &Shape, input: &[u8]) -> Option<(Val, usize)> {
    let mut de = postcard::Deserializer::from_bytes(input);
    let v = ShapeSeed::new(shape).deserialize(&mut de).ok()?;
    let rem = de.finalize().ok()?;
    Some((v, input.len() - rem.len()))
}

fn small_shapes() -> Vec<Shape> {
    let en = ShapeEnum::new(2, 2);
    en.upto(2).into_iter().filter(|s| !matches!(s, Shape::Seq(e) if e.min_width() == 0)).collect()
}

fn c04() -> u64 {
    let mut n = 0;
    let mut strings: Vec<Vec<u8>> = vec![];
    for l in 0..=3 {
        vmodel::for_each_string(&A_DEC, l, &mut |s| strings.push(s.to_vec()));
    }
    // adversarial lengths
    for adv in [1u128 << 14, (1 << 32) - 1, 1 << 63, u64::MAX as u128] {
        let mut x = vmodel::spec::varint(adv);
        x.push(0x61);
        strings.push(x);
    }
    for s in small_shapes() {
        for x in &strings {
            // exact-size heap allocation: Miri checks every access against it
            let boxed: Box<[u8]> = x.clone().into_boxed_slice();
            let _ = decode(&s, &boxed);
            n += 1;
        }
    }
    // typed borrowed targets
    for x in &strings {
        let boxed: Box<[u8]> = x.clone().into_boxed_slice();
        let _ = postcard::take_from_bytes::<&str>(&boxed);
        let _ = postcard::take_from_bytes::<(&[u8], u16, &str)>(&boxed);
        let _ = postcard::take_from_bytes::<Vec<u64>>(&boxed);
        n += 3;
    }
    n
}

fn values() -> Vec<Val> {
    let dom = Domain { cap: 16, long: false };
    let mut out = vec![];
    for s in small_shapes() {
        let v = dom.values(&s, 2);
        out.extend(v.into_iter().take(3));
    }
    out.push(Val::Bytes(vec![0x11; 254]));
    out.push(Val::Str("x".repeat(300)));
    out
}

fn c05() -> u64 {
    let mut n = 0;
    for v in values() {
        let d = AsData(&v);
        let plain = match postcard::to_allocvec(&d) {
            Ok(p) => p,
            Err(_) => continue,
        };
        for framing in 0..3 {
            let len = match framing {
                0 => plain.len(),
                1 => plain.len() + plain.len() / 254 + 2,
                _ => plain.len() + 4,
            };
            let caps: Vec<usize> = if len > 40 { vec![0, 1, len - 1, len, len + 1, 255, 256] } else { (0..=len + 2).collect() };
            for c in caps {
                // an exactly-sized heap buffer: any write past it is UB that Miri reports
                let mut buf: Box<[u8]> = vec![0xA5u8; c].into_boxed_slice();
                let r = match framing {
                    0 => postcard::to_slice(&d, &mut buf).map(|o| o.len()),
                    1 => postcard::to_slice_cobs(&d, &mut buf).map(|o| o.len()),
                    _ => {
                        static CRC: crc::Crc<u32> = crc::Crc::<u32>::new(&crc::CRC_32_ISCSI);
                        postcard::to_slice_crc32(&d, &mut buf, CRC.digest()).map(|o| o.len())
                    }
                };
                assert_eq!(r.is_ok(), c >= len, "capacity threshold");
                n += 1;
            }
        }
        let _ = postcard::to_vec::<_, 8>(&d);
        let _ = postcard::to_vec_cobs::<_, 8>(&d);
    }
    n
}

fn c07() -> u64 {
    let mut n = 0;
    let mut strings: Vec<Vec<u8>> = vec![];
    for l in 0..=5 {
        vmodel::for_each_string(&A_COBS, l, &mut |s| strings.push(s.to_vec()));
    }
    // a long frame and its truncations around the block boundary
    let mut long = vmodel::codecs::cobs_encode(&[0x21u8; 300]);
    long.push(0);
    for cut in [0usize, 1, 253, 254, 255, 256, 257, 300, long.len() - 1, long.len()] {
        strings.push(long[..cut].to_vec());
    }
    for x in &strings {
        for t in 0..3 {
            let mut a: Box<[u8]> = x.clone().into_boxed_slice();
            let mut b: Box<[u8]> = x.clone().into_boxed_slice();
            match t {
                0 => {
                    let _ = postcard::from_bytes_cobs::<u8>(&mut a);
                    let _ = postcard::take_from_bytes_cobs::<u8>(&mut b);
                }
                1 => {
                    let _ = postcard::from_bytes_cobs::<&[u8]>(&mut a).map(|v| v.len());
                    let _ = postcard::take_from_bytes_cobs::<&[u8]>(&mut b).map(|v| v.0.len());
                }
                _ => {
                    let _ = postcard::from_bytes_cobs::<(u8, u8)>(&mut a);
                    let _ = postcard::take_from_bytes_cobs::<()>(&mut b);
                }
            }
            n += 2;
        }
    }
    n
}

struct Dribble<'a>(&'a [u8], usize);
impl std::io::Read for Dribble<'_> {
    fn read(&mut self, buf: &mut [u8]) -> std::io::Result<usize> {
        let n = buf.len().min(self.0.len()).min(self.1);
        buf[..n].copy_from_slice(&self.0[..n]);
        self.0 = &self.0[n..];
        Ok(n)
    }
}

fn c11() -> u64 {
    let mut n = 0;
    let msgs: Vec<(&str, Vec<u8>, u16, &str)> = vec![("ab", vec![1, 2, 3], 300, "é"), ("", vec![], 0, ""), ("hello world", vec![0; 9], 65535, "x")];
    for m in &msgs {
        let e = postcard::to_allocvec(m).unwrap();
        let need = m.0.len() + m.1.len() + m.3.len();
        let mut stream = e.clone();
        stream.extend_from_slice(&e);
        for scratch_len in 0..=2 * need + 1 {
            for chunk in [1usize, 2, usize::MAX] {
                let mut scratch: Box<[u8]> = vec![0u8; scratch_len].into_boxed_slice();
                let r = postcard::from_io::<(&str, &[u8], u16, &str), _>((Dribble(&stream, chunk), &mut scratch));
                if let Ok((v, rest)) = r {
                    assert_eq!((v.0, v.1, v.2, v.3), (m.0, &m.1[..], m.2, m.3));
                    let r2 = postcard::from_io::<(&str, &[u8], u16, &str), _>(rest);
                    if let Ok((w, _)) = r2 {
                        assert_eq!((w.0, w.2), (m.0, m.2));
                        // the first message's borrows must still be intact
                        assert_eq!(v.3, m.3);
                    }
                } else {
                    assert!(scratch_len < need);
                }
                n += 1;
            }
        }
        // corrupt length prefixes through the reader
        for adv in [1u128 << 20, 1 << 63, u64::MAX as u128, u64::MAX as u128 - 7] {
            let mut x = vmodel::spec::varint(adv);
            x.extend_from_slice(b"abcdef");
            let mut scratch: Box<[u8]> = vec![0u8; 4].into_boxed_slice();
            let _ = postcard::from_io::<&str, _>((Dribble(&x, 1), &mut scratch));
            n += 1;
        }
        // writers
        let mut sink = [0u8; 8];
        let _ = postcard::to_io(m, &mut sink[..]);
        let _ = postcard::to_io(m, Vec::new());
        n += 2;
    }
    n
}

fn c08() -> u64 {
    // accumulator N = 3: every stream <= 6 over {00,01,02} x every chunking
    let mut n = 0;
    for len in 1..=6usize {
        let mut streams = vec![];
        vmodel::for_each_string(&[0u8, 1, 2], len, &mut |s| streams.push(s.to_vec()));
        for s in streams {
            for cuts in 0..(1u32 << (len - 1)) {
                let mut acc: CobsAccumulator<3> = CobsAccumulator::new();
                let mut start = 0;
                for i in 0..len {
                    if i == len - 1 || (cuts >> i) & 1 == 1 {
                        let mut window = &s[start..=i];
                        start = i + 1;
                        let mut guard = 0;
                        while !window.is_empty() {
                            guard += 1;
                            assert!(guard < 20);
                            window = match acc.feed::<bool>(window) {
                                FeedResult::Consumed => break,
                                FeedResult::OverFull(w) | FeedResult::DeserError(w) => w,
                                FeedResult::Success { remaining, .. } => remaining,
                            };
                        }
                    }
                }
                n += 1;
            }
        }
    }
    n
}

fn main() {
    let which = std::env::args().nth(1).unwrap_or_default();
    let n = match which.as_str() {
        "C04" => c04(),
        "C05" => c05(),
        "C07" => c07(),
        "C11" => c11(),
        "C08" | "C09" => c08(),
        _ => {
            eprintln!("usage: miriprobe C04|C05|C07|C08|C09|C11");
            std::process::exit(2);
        }
    };
    println!("miriprobe {which}: {n} executions, no undefined behaviour reported");
}
