#!/bin/bash
# build the harness once, offline, from files on disk only
set -e
cd /verif/harness
export CARGO_NET_OFFLINE=true
mkdir -p /verif/target /verif/evidence /verif/replays
cargo build --release --offline -p pcheck
