#!/bin/bash
# Demonstrates detection: for each patch (mutants/*.patch and seeded/*/patch.diff) apply it to a copy of
# the repository, optionally run the repository's own suite with the guard off (must still pass), run
# the property's check(s) and require exit 1 + a VIOLATION line, then revert.
# Not part of the registered commands.
#
#   ./selftest_mutants.sh [--in-place] [--with-baseline] [--tier quick|thorough] [--all-checks]
#                         [--shard i/n] [--out file] [--names file-with-one-name-per-line] [name-filter]
#
# Default mode is ISOLATED: a scratch git worktree of /repo's HEAD and a copy of /verif's harness are
# created under $ISO (default /tmp/verif-iso-<shard>), the harness's path dependencies are pointed at
# the scratch repository, and VERIF_ROOT makes pcheck read/write inside the copy - so /repo and /verif
# stay untouched and usable while this runs. Under `vp run --with-repo` the provided snapshots are used.
# --in-place applies the patches to /repo itself and uses ./check (what a user of MANIFEST.json does).
set -u
BASELINE=0; TIER=quick; FILTER=""; ALLCHK=0; INPLACE=0; SHARD="0/1"; OUT=""; NAMES=""
while [ $# -gt 0 ]; do case "$1" in
  --with-baseline) BASELINE=1;; --tier) TIER="$2"; shift;; --all-checks) ALLCHK=1;; --in-place) INPLACE=1;;
  --shard) SHARD="$2"; shift;; --out) OUT="$2"; shift;; --names) NAMES="$2"; shift;; *) FILTER="$1";; esac; shift; done
SI=${SHARD%/*}; SN=${SHARD#*/}
SRC=/verif
[ -n "${VP_RUN_REPO:-}" ] && SRC="$PWD"
OUT=${OUT:-$SRC/mutants/results-$SI-of-$SN.tsv}

if [ $INPLACE -eq 1 ]; then
  REPO=/repo; ROOT=/verif
  if [ -n "$(git -C /repo status --porcelain --untracked-files=no)" ]; then echo "/repo is not clean"; exit 2; fi
  runcheck() { (cd /verif && ./check "$1" "$TIER"); }
  cleanup() { git -C /repo checkout -- . 2>/dev/null; }
else
  ISO=${ISO:-/tmp/verif-iso-$SI}
  rm -rf "$ISO/verif"; mkdir -p "$ISO/verif"
  if [ -n "${VP_RUN_REPO:-}" ]; then REPO="$VP_RUN_REPO"; else
    REPO="$ISO/repo"; git -C /repo worktree remove --force "$REPO" 2>/dev/null; rm -rf "$REPO"
    git -C /repo worktree add --detach "$REPO" HEAD >/dev/null 2>&1 || { echo "cannot create worktree"; exit 2; }
  fi
  ROOT="$ISO/verif"
  (cd "$SRC" && tar cf - --exclude=./target --exclude=./.git --exclude=./evidence --exclude=./replays .) | (cd "$ROOT" && tar xf -)
  sed -i "s#/repo/source#$REPO/source#g" "$ROOT"/harness/*/Cargo.toml
  sed -i "s#target-dir = .*#target-dir = \"$ISO/target\"#" "$ROOT/harness/.cargo/config.toml"
  if [ ! -d "$ISO/target" ] && [ -d /verif/target/release ]; then mkdir -p "$ISO/target"; cp -a /verif/target/release "$ISO/target/" 2>/dev/null; fi
  export VERIF_ROOT="$ROOT" CARGO_NET_OFFLINE=true
  mkdir -p "$ROOT/evidence" "$ROOT/replays"
  runcheck() {
    (cd "$ROOT/harness" && cargo build --release --offline -p pcheck >"$ISO/build.log" 2>&1) || { echo "MACHINERY: build failed"; grep -E "^error" -A6 "$ISO/build.log" | head -20; return 2; }
    # a check that does not come back within 15 minutes is reported as rc=124 (never as caught)
    (cd "$ROOT" && timeout 900 "$ISO/target/release/pcheck" "$1" --tier "$TIER")
  }
  cleanup() { git -C "$REPO" checkout -- . 2>/dev/null; [ -z "${VP_RUN_REPO:-}" ] && git -C /repo worktree remove --force "$REPO" 2>/dev/null; rm -rf "$ISO"; }
fi
trap cleanup EXIT INT TERM

list() {
  python3 - "$SRC" <<'PY'
import json,glob,os,sys
src=sys.argv[1]
for m in json.load(open(src+'/mutants/index.json')):
    print(m['name'], m['property'], f"{src}/mutants/{m['name']}.patch")
for meta in sorted(glob.glob(src+'/seeded/*/meta.json')):
    d=json.load(open(meta)); dirn=os.path.dirname(meta)
    print("seeded:"+os.path.basename(dirn), d['property'], dirn+"/patch.diff")
# behaviour-preserving refactors written by independent sub-agents (benign/<area>-<x>/patch.diff): property NONE
for pd in sorted(glob.glob(src+'/benign/*/patch.diff')):
    print("benign:"+os.path.basename(os.path.dirname(pd)), "NONE", pd)
PY
}
: > "$OUT"
n=0
list | while read -r name prop patch; do
  case "$name" in *"$FILTER"*) ;; *) continue;; esac
  if [ -n "$NAMES" ] && ! grep -qxF "$name" "$NAMES"; then continue; fi
  n=$((n+1)); if [ $(( (n-1) % SN )) -ne "$SI" ]; then continue; fi
  if ! git -C "$REPO" apply --check "$patch" 2>/dev/null; then echo -e "$name\t$prop\t-\tPATCH-DOES-NOT-APPLY" | tee -a "$OUT"; continue; fi
  git -C "$REPO" apply "$patch"
  base="-"
  if [ $BASELINE -eq 1 ]; then
    if (cd "$REPO" && CARGO_TARGET_DIR="$REPO/target" cargo test --workspace --no-fail-fast --offline >/dev/null 2>&1); then base="suite-pass"; else base="SUITE-FAILS"; fi
  fi
  caught=""
  checks="$prop"; [ $ALLCHK -eq 1 ] && checks="C01 C02 C03 C04 C05 C06 C07 C08 C09 C10 C11 C12 C13 C14 C15 C16 C17 C18 C19 C20"
  for c in $checks; do
    out=$(runcheck "$c" 2>&1); rc=$?
    if [ $rc -eq 1 ] && echo "$out" | grep -q "^VIOLATION property=$c"; then
      cls=$(echo "$out" | grep -o "class=[^ ]*" | grep -v "^class=dyn-.*arity-1\|zero-width" | head -2 | tr '\n' ',' )
      caught="$caught $c[$cls]"
    elif [ $rc -eq 2 ]; then caught="$caught $c(machinery)";
    elif [ $rc -ne 0 ]; then caught="$caught $c(rc=$rc)"; fi
  done
  git -C "$REPO" checkout -- .
  echo -e "$name\t$prop\t$base\tcaught-by:${caught:- NONE}" | tee -a "$OUT"
done
