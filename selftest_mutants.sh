#!/bin/bash
# Demonstrates detection: for each patch (mutants/*.patch or seeded/*/patch.diff) apply it to /repo,
# optionally run the repository's own suite with the guard off (must still pass), run the property's
# check(s) and require exit 1 + a VIOLATION line, then revert. Not part of the registered commands.
#   ./selftest_mutants.sh [--with-baseline] [--tier quick|thorough] [--all-checks] [name-filter]
set -u
BASELINE=0; TIER=quick; FILTER=""; ALLCHK=0
while [ $# -gt 0 ]; do case "$1" in --with-baseline) BASELINE=1;; --tier) TIER="$2"; shift;; --all-checks) ALLCHK=1;; *) FILTER="$1";; esac; shift; done
cd /verif
if [ -n "$(git -C /repo status --porcelain --untracked-files=no)" ]; then echo "/repo is not clean"; exit 2; fi
trap 'git -C /repo checkout -- . 2>/dev/null' EXIT INT TERM
RES=/verif/mutants/results.tsv
: > "$RES.tmp"
list() {
  python3 - <<'PY'
import json,glob,os
for m in json.load(open('/verif/mutants/index.json')):
    print(m['name'], m['property'], f"/verif/mutants/{m['name']}.patch")
for meta in sorted(glob.glob('/verif/seeded/*/meta.json')):
    d=json.load(open(meta)); dirn=os.path.dirname(meta)
    print("seeded:"+os.path.basename(dirn), d['property'], dirn+"/patch.diff")
PY
}
list | while read -r name prop patch; do
  case "$name" in *"$FILTER"*) ;; *) continue;; esac
  if ! git -C /repo apply --check "$patch" 2>/dev/null; then echo -e "$name\t$prop\tPATCH-DOES-NOT-APPLY" | tee -a "$RES.tmp"; continue; fi
  git -C /repo apply "$patch"
  base="-"
  if [ $BASELINE -eq 1 ]; then
    if (cd /repo && cargo test --workspace --no-fail-fast --offline >/tmp/mut-base.log 2>&1); then base="suite-pass"; else base="SUITE-FAILS"; fi
  fi
  caught=""
  checks="$prop"; [ $ALLCHK -eq 1 ] && checks="C01 C02 C03 C04 C05 C06 C07 C08 C09 C10 C11 C12 C13 C14 C15 C16 C17 C18 C19 C20"
  for c in $checks; do
    out=$(./check "$c" "$TIER" 2>&1); rc=$?
    if [ $rc -eq 1 ] && echo "$out" | grep -q "^VIOLATION property=$c"; then caught="$caught $c"; 
    elif [ $rc -eq 2 ]; then caught="$caught $c(machinery)"; fi
  done
  git -C /repo checkout -- .
  echo -e "$name\t$prop\t$base\tcaught-by:${caught:- NONE}" | tee -a "$RES.tmp"
done
mv "$RES.tmp" "$RES"
