#!/usr/bin/env python3
"""Regenerates MANIFEST.json from the table below (kept in one place so it stays valid)."""
import json, subprocess

MC="model_checking"; FE="fault_enumeration"
ALL = {
 "C01": (MC, "bounded-exhaustive enumeration of shapes x values x entry points against the identity oracle",
         "Every serde shape tree up to k nodes x its complete bounded value domain is pushed through every encode entry point and every decode entry point of the real crate (inputs flush against guard pages) and must come back bit-identical with the exact remainder. A complete walk of a stated finite space, not a sample.",
         "Small-scope hypothesis for shapes (k nodes) and structured value families for >=32-bit integers / long strings; typed corpus is finite.", "DESIGN.md 4.C01"),
 "C02": (MC, "bounded-exhaustive enumeration against an independent spec encoder",
         "Same space as C01; the real encoder's bytes are compared byte-for-byte with an encoder written from wire-format.md, plus the unknown-length and collect_str rules and a typed corpus recorded through an independent Serializer.",
         "Reference encoder transcribes the spec (self-tested on the spec's worked examples); same small-scope assumptions as C01.", "DESIGN.md 4.C02"),
 "C03": (MC, "exhaustive enumeration of byte strings per shape against an independent spec decoder",
         "Whole input space of the 16-bit varint reader up to 3 (quick) / 4 (thorough) bytes, alphabet-complete string spaces for wider readers, every shape <= k nodes x every string over a decoder-relevant alphabet, and every prefix / substitution / re-padding / adversarial-length perturbation of every valid encoding; accept/reject, value, consumed length, remainder pointer and error kind are compared with a decoder written from the specification.",
         "Alphabet restriction for >16-bit readers; error kinds compared only for the six kinds the property names; zero-width sequence claims > 4096 not executed.", "DESIGN.md 4.C03"),
 "C04": (MC, "exhaustive enumeration of byte strings per shape under guard-page / panic / allocation monitors",
         "C03's input space decoded with the input flush against an inaccessible page on either side, under a panic trap, a counting allocator with a hard cap, and a check that every borrowed slice lies in the input where the spec decoder predicts; typed corpus of std/heapless types for the allocation bound; any/identifier/ignored requests must be refused.",
         "Memory safety is observed by monitors on every enumerated execution, not proved for unenumerated ones; maps are outside the allocation bound (as the property states for zero-width elements, and see DESIGN 4b.4).", "DESIGN.md 4.C04"),
 "C05": (FE, "exhaustive enumeration of the fault point (capacity at which the buffer runs out) for every value and framing",
         "For every enumerated value and every framing (plain, COBS, CRC of each width) every capacity from 0 to len+2 is tried on guarded slice buffers and const-generic heapless vectors: success iff capacity >= length, bytes equal the unbounded encoding, canaries intact, buffer-full error otherwise.",
         "Finite value corpus; heapless capacities from a macro-instantiated table.", "DESIGN.md 4.C05"),
 "C06": (MC, "exhaustive message enumeration + explicit-state search of the COBS encoder flavour against an independent COBS codec",
         "All messages up to a bound over {00,01,02,FF}, all run structures around multiples of 254, a state walk of the real encoder flavour from every run length, all storages, and all frame sequences up to 4 (quick) / 6 (thorough) frames decoded frame-at-a-time.",
         "Reference COBS written from the Cheshire-Baker definition (self-tested on published vectors).", "DESIGN.md 4.C06"),
 "C07": (MC, "exhaustive enumeration of byte strings over a code-byte alphabet against independent COBS decoder + spec decoder",
         "Every string up to the bound over {00..04,FF} x target types x both entry points, plus every truncation and single-byte corruption of long frames, on guarded buffers; result must equal reference COBS decode followed by the spec decoder, remainder must start right after the first sentinel.",
         "The in-place decoder lives in the cobs dependency; what is decided is postcard's use of its report.", "DESIGN.md 4.C07"),
 "C08": (MC, "explicit-state BFS over all reachable accumulator states x all chunks (step refinement) + all streams x all chunkings (trace oracle)",
         "The whole reachable state space (buf[N], idx) of the real accumulator for N=1..6(7) is explored; every transition is compared with a step model; every stream up to the bound is additionally cut in every possible way and run through the documented loop. stateright re-explores the same graph in the thorough tier.",
         "Step refinement extends to unbounded streams by induction; byte alphabet {00,01,02,03}(+FF).", "DESIGN.md 4.C08"),
 "C09": (MC, "explicit-state BFS of the full accumulator graph incl. overflow transitions; zero-progress-cycle and resync invariants; trace oracle on unrestricted streams",
         "Same graph as C08 without the fits restriction: no panic, idx<=N, reset after every sentinel, overflow reported before the sentinel is passed, no zero-progress cycle, fitting frames after any sentinel delivered intact, loop terminates within 2*len+2 iterations.",
         "As C08.", "DESIGN.md 4.C09"),
 "C10": (MC, "bounded-exhaustive enumeration of frames x every bit flip x every burst pattern against a bitwise CRC reference",
         "Values x five widths x catalogue algorithms x storages; every accepted input must carry the right checksum per an independent Rocksoft-model CRC; every single-bit flip and every burst up to the stated length at every offset of every pooled frame must be rejected when the decoded length is unchanged.",
         "Burst patterns longer than the stated Bmax are represented by end-point patterns only (reported as a cap).", "DESIGN.md 4.C10"),
 "C11": (FE, "deviation-bounded DFS over environment answers of every read/write/flush call x scratch sizes x message sequences",
         "Every read/write/flush call is a choice point (full, 1 byte, all-but-one, Interrupted, error, zero); all schedules for short transfers and all schedules with <= 2 (quick) / 3 (thorough) deviations otherwise, crossed with every scratch size 0..need+1 and sequences of messages on one stream.",
         "Deviation bound; embedded-io 0.6 adapter in the main binary.", "DESIGN.md 4.C11"),
 "C12": (MC, "exhaustive product of per-field extreme values over a typed corpus of every MaxSize impl",
         "For every built-in and derived MaxSize type the complete product of extreme field values is serialised; every length must be <= POSTCARD_MAX_SIZE and for the tight class the maximum must be attained.",
         "Extends to all values by monotonicity of varint length in magnitude (stated assumption).", "DESIGN.md 4.C12"),
 "C13": (MC, "whole-domain (16-bit) and structured-pattern enumeration of the fixint adapters against to_le_bytes/to_be_bytes",
         "All 8 widths x both byte orders; entire 16-bit domains, every single-byte and adjacent two-byte pattern for wider widths, whole 32-bit domain in thorough.",
         "Structured families for 64/128-bit.", "DESIGN.md 4.C13"),
 "C14": (MC, "bounded-exhaustive typed corpus: recorded Serializer call tree vs. T::SCHEMA conformance + schema-driven decode",
         "Every built-in Schema impl (incl. optional integrations) and a derived corpus x bounded value products; the data-model call tree recorded by an independent Serializer must conform to the schema, and a schema-driven spec decoder must consume each encoding exactly.",
         "Finite typed corpus.", "DESIGN.md 4.C14"),
 "C15": (MC, "exhaustive enumeration of schema trees up to k nodes with name cycling",
         "Every schema tree up to k nodes: owned conversion equals the AST, borrowed and owned encodings are identical and equal the spec encoding of the AST, bytes decode back to the owned tree.",
         "Trees bounded by node count.", "DESIGN.md 4.C15"),
 "C16": (MC, "exhaustive enumeration of schema trees x paths x every single-node mutation against an independent FNV-1a tag-stream implementation",
         "Const hasher (via hook), owned hasher and independent reference must agree on every tree and path; every single-node mutation whose reference stream differs must change the key; type-name mutations must not.",
         "Const fn evaluated at run time through the hook, cross-checked with genuinely const-evaluated keys on the typed corpus; FNV collisions.", "DESIGN.md 4.C16"),
 "C17": (MC, "bounded-exhaustive enumeration of shapes x values (filtered as the property says) against static encoder and serde_json",
         "For every in-scope shape and value: to_stdvec_dyn(schema, json) equals static bytes and from_slice_dyn(schema, bytes) equals serde_json::to_value.",
         "Domain filter exactly as in the property.", "DESIGN.md 4.C17"),
 "C18": (MC, "exhaustive enumeration of schema trees x byte strings x bounded JSON grammar under panic/allocation monitors",
         "No panic in either direction, allocation bounded by a multiple of the input, and the re-encode fixpoint on everything the encoder accepts.",
         "Bounded JSON grammar; dangerous cases (predicted unbounded loops) isolated in subprocesses.", "DESIGN.md 4.C18"),
 "C19": (MC, "exhaustive enumeration of schema trees up to k nodes",
         "to_pseudocode/Display/all_used_types never panic; the collected set equals the set of sub-trees; renderings mention type, field and variant names.",
         "Trees bounded by node count.", "DESIGN.md 4.C19"),
 "C20": (MC, "bounded-exhaustive enumeration of values x flavour stacks x storages against composed reference transformers",
         "Every stack (plain, COBS, CRC_w, CRC_w over COBS) over every storage equals the composition of the independent COBS/CRC transformers; recording user flavours see exactly the plain encoding.",
         "Finite value corpus.", "DESIGN.md 4.C20"),
}
BUILT = ["C01","C02","C03","C04","C05","C06","C07","C08","C09","C10","C11","C12","C13","C14","C15","C16","C17","C18","C19","C20"]
CLAIMED = {k: v for k, v in ALL.items() if k in BUILT}

NOT_APPLICABLE = {}

def main():
    hooks_commits = subprocess.run(["git","-C","/repo","log","--format=%H %s"],capture_output=True,text=True).stdout.splitlines()
    hook_shas = [l.split()[0] for l in hooks_commits if "verif hook" in l]
    checks = []
    for pid,(cat,tech,text,note,ref) in sorted(CLAIMED.items()):
        checks.append({
            "property_id": pid,
            "quick_cmd": f"./check {pid} quick",
            "thorough_cmd": f"./check {pid} thorough",
            "evidence_file": f"/verif/evidence/{pid}.json",
            "replay_cmd_template": "./check --replay {path}",
            "engine": "pcheck",
            "level_claimed": {"category": cat, "text": text, "design_ref": ref},
            "level_note": note,
            "technique": tech,
        })
    all_ids = [f"C{n:02d}" for n in range(1,21)]
    na = []
    for pid in all_ids:
        if pid not in CLAIMED:
            na.append({"property_id": pid, "reason": NOT_APPLICABLE.get(pid, "check not built yet in this revision (work in progress); no claim is made")})
    m = {
        "version": 1,
        "setup_cmd": "./setup.sh",
        "hooks": {
            "guard": "--cfg postcard_verif",
            "enable": "RUSTFLAGS=--cfg postcard_verif via /verif/harness/.cargo/config.toml (the harness path-depends on /repo/source/*, so every build is of /repo's working tree)",
            "baseline_off_cmd": "cd /repo && cargo test --workspace --no-fail-fast --offline",
            "source_commits": hook_shas,
            "add_only": True,
        },
        "engines": [{
            "name": "pcheck",
            "path": "/verif/harness",
            "serves_properties": sorted(CLAIMED.keys()),
            "kind_free_text": "own Rust explorer: bounded-exhaustive enumeration and explicit-state BFS/DFS driving the real postcard crates in-process against reference models in the vmodel crate (which never imports postcard); stateright as a second explorer for the accumulator graph",
        }],
        "checks": checks,
        "not_applicable": na,
        "notes": "exit 0 held / 1 VIOLATION / 2 machinery failure (never a verdict). Known findings: /verif/known_findings.json.",
    }
    json.dump(m, open("/verif/MANIFEST.json","w"), indent=1)
    print("claimed", len(checks), "not_applicable", len(na))

if __name__ == "__main__":
    main()
