#!/usr/bin/env python3
"""Regenerates MANIFEST.json from the table below (kept in one place so it stays valid)."""
import json, subprocess

CLAIMED = {
 # id: (category, technique, text, note, design_ref)
 "C01": ("model_checking", "bounded-exhaustive enumeration of shapes x values x entry points against the identity oracle",
         "Every serde shape tree up to k nodes x its complete bounded value domain is pushed through every encode entry point and every decode entry point of the real crate (with guard pages) and must come back bit-identical with the exact remainder. A complete walk of a stated finite space, not a sample.",
         "Small-scope hypothesis for shapes (k nodes) and structured value families for >=32-bit integers / long strings; typed corpus is finite.", "DESIGN.md#c01"),
 "C02": ("model_checking", "bounded-exhaustive enumeration against an independent spec encoder",
         "Same space as C01; the real encoder's bytes are compared byte-for-byte with an encoder written from wire-format.md, plus the unknown-length and collect_str rules.",
         "Reference encoder transcribes the spec (self-tested on the spec's worked examples); same small-scope assumptions as C01.", "DESIGN.md#c02"),
}

NOT_APPLICABLE = {}

def main():
    hooks_commits = subprocess.run(["git","-C","/repo","log","--format=%H %s"],capture_output=True,text=True).stdout.splitlines()
    hook_shas = [l.split()[0] for l in hooks_commits if "verif hook" in l]
    checks = []
    for pid,(cat,tech,text,note,ref) in sorted(CLAIMED.items()):
        checks.append({
            "property_id": pid,
            "quick_cmd": f"./check {pid} quick",
            "thorough_cmd": f"./check {pid} thorough",
            "evidence_file": f"/verif/evidence/{pid}.json",
            "replay_cmd_template": "./check --replay {path}",
            "engine": "pcheck",
            "level_claimed": {"category": cat, "text": text, "design_ref": ref},
            "level_note": note,
            "technique": tech,
        })
    all_ids = [f"C{n:02d}" for n in range(1,21)]
    na = []
    for pid in all_ids:
        if pid not in CLAIMED:
            na.append({"property_id": pid, "reason": NOT_APPLICABLE.get(pid, "check not built yet in this revision (work in progress); no claim is made")})
    m = {
        "version": 1,
        "setup_cmd": "./setup.sh",
        "hooks": {
            "guard": "--cfg postcard_verif",
            "enable": "RUSTFLAGS=--cfg postcard_verif via /verif/harness/.cargo/config.toml (the harness path-depends on /repo/source/*, so every build is of /repo's working tree)",
            "baseline_off_cmd": "cd /repo && cargo test --workspace --no-fail-fast --offline",
            "source_commits": hook_shas,
            "add_only": True,
        },
        "engines": [{
            "name": "pcheck",
            "path": "/verif/harness",
            "serves_properties": sorted(CLAIMED.keys()),
            "kind_free_text": "own Rust explorer: bounded-exhaustive enumeration and explicit-state BFS/DFS driving the real postcard crates in-process against reference models in the vmodel crate (which never imports postcard); stateright as a second explorer for the accumulator graph",
        }],
        "checks": checks,
        "not_applicable": na,
        "notes": "exit 0 held / 1 VIOLATION / 2 machinery failure (never a verdict). Known findings: /verif/known_findings.json.",
    }
    json.dump(m, open("/verif/MANIFEST.json","w"), indent=1)
    print("claimed", len(checks), "not_applicable", len(na))

if __name__ == "__main__":
    main()
