#!/bin/bash
# Mutation sweep: for every mechanical mutant in automut/patches (gen_auto_mutants.py) apply it to a scratch
# worktree of /repo's HEAD, rebuild an isolated copy of the harness against it and run the quick checks until one
# reports a VIOLATION. Mutants that no check reports are then run through the repository's own suite:
#   no-compile | caught-by:<id>[class] | suite-killed (only the repository's tests see it) | SURVIVED
# SURVIVED mutants are either equivalent or a blind spot: each is classified by hand in automut/SURVIVORS.md.
#   ./sweep.sh [--shard i/n] [--out file] [--batch suffix]
set -u
SHARD="0/1"; OUT=""; BATCH=""
while [ $# -gt 0 ]; do case "$1" in --shard) SHARD="$2"; shift;; --out) OUT="$2"; shift;; --batch) BATCH="$2"; shift;; esac; shift; done
SI=${SHARD%/*}; SN=${SHARD#*/}
SRC=/verif
OUT=${OUT:-$SRC/automut/results$BATCH-$SI-of-$SN.tsv}
ISO=${ISO:-/tmp/verif-am-$SI}
rm -rf "$ISO"; mkdir -p "$ISO/verif"
REPO="$ISO/repo"
git -C /repo worktree add --detach "$REPO" HEAD >/dev/null 2>&1 || { echo "cannot create worktree"; exit 2; }
ROOT="$ISO/verif"
(cd "$SRC" && tar cf - --exclude=./target --exclude=./.git --exclude=./evidence --exclude=./evidence_thorough --exclude=./replays --exclude=./seeded --exclude=./mutants --exclude=./benign .) | (cd "$ROOT" && tar xf -)
sed -i "s#/repo/source#$REPO/source#g" "$ROOT"/harness/*/Cargo.toml
sed -i "s#target-dir = .*#target-dir = \"$ISO/target\"#" "$ROOT/harness/.cargo/config.toml"
mkdir -p "$ISO/target"; cp -a /verif/target/release "$ISO/target/" 2>/dev/null
export VERIF_ROOT="$ROOT" CARGO_NET_OFFLINE=true VERIF_HANG_LIMIT_S=120
mkdir -p "$ROOT/evidence" "$ROOT/replays"
cleanup() { git -C "$REPO" checkout -- . 2>/dev/null; git -C /repo worktree remove --force "$REPO" 2>/dev/null; rm -rf "$ISO"; }
trap cleanup EXIT INT TERM
# order: the checks most likely to see a change in the mutated file first
order_for() {
  case "$1" in
    *postcard-dyn*) echo "C17 C18 C14";;
    *postcard-schema/src/key*) echo "C16 C14 C15";;
    *postcard-schema*|*postcard-derive/src/schema*) echo "C15 C19 C14 C16 C17 C18";;
    *postcard-derive/src/max_size*|*max_size.rs) echo "C12";;
    *accumulator*) echo "C08 C09 C07";;
    *fixint*) echo "C13 C01";;
    *varint*) echo "C02 C01 C05 C12";;
    *ser/*) echo "C02 C01 C05 C06 C10 C20 C11 C13";;
    *de/*) echo "C03 C01 C04 C07 C06 C10 C11 C08 C13";;
    *) echo "";;
  esac
}
ALL="C01 C02 C03 C04 C05 C06 C07 C08 C09 C10 C11 C12 C13 C14 C15 C16 C17 C18 C19 C20"
: > "$OUT"
n=0
while IFS=$'\t' read -r id file line op before after; do
  n=$((n+1)); if [ $(( (n-1) % SN )) -ne "$SI" ]; then continue; fi
  patch="$SRC/automut/patches$BATCH/$id.patch"
  git -C "$REPO" apply "$patch" 2>/dev/null || { echo -e "$id\t$file:$line\t$op\tPATCH-DOES-NOT-APPLY" | tee -a "$OUT"; continue; }
  if ! (cd "$ROOT/harness" && cargo build --release --offline -p pcheck >"$ISO/build.log" 2>&1); then
    git -C "$REPO" checkout -- .
    echo -e "$id\t$file:$line\t$op\tno-compile" | tee -a "$OUT"; continue
  fi
  first=$(order_for "$file"); rest=""
  for c in $ALL; do case " $first " in *" $c "*) ;; *) rest="$rest $c";; esac; done
  verdict=""
  for c in $first $rest; do
    out=$(cd "$ROOT" && timeout 900 "$ISO/target/release/pcheck" "$c" --tier quick 2>&1); rc=$?
    if [ $rc -eq 1 ] && echo "$out" | grep -q "^VIOLATION property=$c"; then
      cls=$(echo "$out" | grep -o "class=[^ ]*" | grep -v "zero-width" | head -1)
      [ -z "$cls" ] && cls=$(echo "$out" | grep -o "^[A-Z]*: " | head -1)
      verdict="caught-by:$c[$cls]"; break
    elif [ $rc -ne 0 ]; then verdict="$verdict $c(rc=$rc)"; fi
  done
  case "$verdict" in caught-by:*) ;; *)
    if (cd "$REPO" && CARGO_TARGET_DIR="$REPO/target" cargo test --workspace --no-fail-fast --offline >/dev/null 2>&1); then verdict="SURVIVED$verdict"; else verdict="suite-killed$verdict"; fi;;
  esac
  git -C "$REPO" checkout -- .
  echo -e "$id\t$file:$line\t$op\t$verdict\t$before\t=>\t$after" | tee -a "$OUT"
done < "$SRC/automut/index$BATCH.tsv"
