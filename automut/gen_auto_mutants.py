#!/usr/bin/env python3
"""Mechanical mutation operators over the library sources the properties are anchored in.

Writes /verif/automut/patches/<id>.patch and /verif/automut/index.tsv (id, file, line, operator, before, after).
One mutant = one token-level change on one line outside comments, attributes, doc strings and `#[cfg(test)]`
modules. The sample is deterministic (every k-th site per operator and file), so re-running gives the same set.

Usage: python3 gen_auto_mutants.py [max_per_file_and_operator [batch-suffix [offset-fraction-in-percent]]]
  e.g. `gen_auto_mutants.py 2` -> patches/, index.tsv;  `gen_auto_mutants.py 2 2 50` -> patches2/, index2.tsv with the
  sample shifted by half a stride (different sites)
"""
import os, re, subprocess, sys, hashlib

REPO = "/repo"
OUT = "/verif/automut"
FILES = [
    "source/postcard/src/ser/serializer.rs", "source/postcard/src/ser/flavors.rs", "source/postcard/src/ser/mod.rs",
    "source/postcard/src/de/deserializer.rs", "source/postcard/src/de/flavors.rs", "source/postcard/src/de/mod.rs",
    "source/postcard/src/accumulator.rs", "source/postcard/src/varint.rs", "source/postcard/src/fixint.rs", "source/postcard/src/max_size.rs",
    "source/postcard-schema/src/schema/owned.rs", "source/postcard-schema/src/schema/fmt.rs", "source/postcard-schema/src/schema/mod.rs",
    "source/postcard-schema/src/key/hash.rs", "source/postcard-schema/src/key/mod.rs",
    "source/postcard-schema/src/impls/builtins_nostd.rs", "source/postcard-schema/src/impls/builtins_alloc.rs", "source/postcard-schema/src/impls/builtins_std.rs",
    "source/postcard-schema/src/impls/heapless_v0_7.rs", "source/postcard-schema/src/impls/nalgebra_v0_33.rs",
    "source/postcard-dyn/src/ser.rs", "source/postcard-dyn/src/de.rs",
    "source/postcard-derive/src/schema.rs", "source/postcard-derive/src/max_size.rs",
]
# (name, regex, replacement) - binary operators are matched with the surrounding blanks rustfmt puts there
OPS = [
    ("lt->le", r" < ", " <= "), ("le->lt", r" <= ", " < "), ("gt->ge", r" > ", " >= "), ("ge->gt", r" >= ", " > "),
    ("eq->ne", r" == ", " != "), ("ne->eq", r" != ", " == "),
    ("and->or", r" && ", " || "), ("or->and", r" \|\| ", " && "),
    ("plus->minus", r" \+ ", " - "), ("minus->plus", r" - ", " + "),
    ("pluseq->minuseq", r" \+= ", " -= "), ("shl->shr", r" << ", " >> "), ("shr->shl", r" >> ", " << "),
    ("bitand->bitor", r" & ", " | "), ("bitor->bitand", r" \| ", " & "), ("xor->or", r" \^ ", " | "),
    ("lit+1", r"(?<![\w.#\"'])(\d+)(?![\w.\"'])", None),         # decimal literal n -> n+1
    ("hex-lowbit", r"0x([0-9A-Fa-f]{2})\b", None),               # 0xNN -> 0xNN ^ 1
    ("true->false", r"\btrue\b", "false"), ("false->true", r"\bfalse\b", "true"),
    ("drop-not", r"(?<=[\s(])!(?=[a-zA-Z_(])", ""),
    ("Some->None-guard", r"\.is_some\(\)", ".is_none()"), ("is_ok->is_err", r"\.is_ok\(\)", ".is_err()"),
    ("min->max", r"\.min\(", ".max("), ("max->min", r"\.max\(", ".min("),
    ("wrapping->plain-sub1", r"\.saturating_sub\(1\)", ".saturating_sub(0)"),
    # an error is swallowed: `expr?;` on its own line becomes `let _ = expr;`
    ("swallow-error", r"^(\s*)([^=\n]*[\w)\]])\?;\s*$", None),
    # a condition is forced
    ("if-true", r"\bif (?!let )([^{}]+) \{\s*$", None), ("if-false", r"\bif (?!let )([^{}]+) \{\s*$", None),
    # statement deletion: an assignment to a field / a mutating call on its own line is removed
    ("delete-stmt", r"^(\s*)((self\.|\*)?[\w.\[\]]+\s*([+\-*|&^]|<<|>>)?=\s*[^=;][^;]*;|[\w.]+\.(push|push_str|extend|extend_from_slice|update|insert|copy_from_slice|truncate|clear|fill)\([^;]*\);)\s*$", None),
]

def code_lines(path):
    """yield (lineno, text) for lines that are code: not comments/doc/attributes, not inside cfg(test) modules"""
    src = open(path).read().split("\n")
    out = []
    in_test = False
    depth_at_test = None
    depth = 0
    for i, l in enumerate(src):
        st = l.strip()
        if st.startswith("#[cfg(test)]"):
            in_test = True
            depth_at_test = None
        if in_test:
            # skip until the module's braces close
            opens, closes = l.count("{"), l.count("}")
            if depth_at_test is None and opens:
                depth_at_test = 0
            if depth_at_test is not None:
                depth_at_test += opens - closes
                if depth_at_test <= 0 and (opens or closes):
                    in_test = False
            continue
        if st.startswith("//") or st.startswith("#[") or st.startswith("#!") or st.startswith("*") or st.startswith("/*"):
            continue
        if "verif_" in l or "postcard_verif" in l:
            continue
        out.append((i, l))
    return src, out

def strip_strings_and_comments(l):
    """positions of l that are inside a string literal or a trailing comment are masked"""
    mask = [False] * len(l)
    in_s = False
    i = 0
    while i < len(l):
        c = l[i]
        if not in_s and l.startswith("//", i):
            for j in range(i, len(l)):
                mask[j] = True
            break
        if c == '"' and (i == 0 or l[i - 1] != "\\"):
            in_s = not in_s
            mask[i] = True
        elif in_s:
            mask[i] = True
        i += 1
    return mask

def main():
    per = int(sys.argv[1]) if len(sys.argv) > 1 else 3
    batch = sys.argv[2] if len(sys.argv) > 2 else ""
    shift = int(sys.argv[3]) if len(sys.argv) > 3 else 0
    PD = OUT + "/patches" + batch
    os.makedirs(PD, exist_ok=True)
    for f in os.listdir(PD):
        os.remove(PD + "/" + f)
    seen = set()
    if batch:
        import glob
        seen = {l.split("\t")[0] for f in glob.glob(OUT + "/index*.tsv") if f != OUT + "/index" + batch + ".tsv" for l in open(f)}
    assert subprocess.run(["git", "-C", REPO, "status", "--porcelain", "--untracked-files=no"], capture_output=True, text=True).stdout == "", "/repo not clean"
    index = []
    for f in FILES:
        path = os.path.join(REPO, f)
        if not os.path.exists(path):
            continue
        src, lines = code_lines(path)
        for name, rx, rep in OPS:
            if rx is None:
                continue
            sites = []
            for (i, l) in lines:
                mask = strip_strings_and_comments(l)
                for m in re.finditer(rx, l):
                    if any(mask[m.start():m.end()]):
                        continue
                    if name == "lit+1":
                        # skip array-size / generic / tuple-index positions that would not compile or are types
                        before = l[:m.start()]
                        if before.rstrip().endswith((";", "<", "::<")) and "[" in before and "]" in l[m.end():m.end() + 2]:
                            continue
                        new = str(int(m.group(1)) + 1)
                    elif name == "hex-lowbit":
                        new = "0x%02X" % (int(m.group(1), 16) ^ 1)
                    elif name == "swallow-error":
                        if l.lstrip().startswith(("let ", "return", "Ok(", "Some(")) or "=>" in l:
                            continue
                        new = m.group(1) + "let _ = " + m.group(2).strip() + ";"
                    elif name in ("if-true", "if-false"):
                        if "else if" in l and name == "if-true":
                            pass
                        new = "if " + ("true" if name == "if-true" else "false") + " {"
                    elif name == "delete-stmt":
                        if l.lstrip().startswith(("let ", "const ", "static ", "type ", "pub ", "use ")):
                            continue
                        new = m.group(1)
                    else:
                        new = rep
                    sites.append((i, m.start(), m.end(), new))
            if not sites:
                continue
            # deterministic spread: `per` sites per (file, operator)
            step = max(1, len(sites) // per)
            chosen = sites[(step * shift) // 100::step][:per]
            for (i, a, b, new) in chosen:
                l = src[i]
                mutated = l[:a] + new + l[b:]
                if mutated == l:
                    continue
                new_src = src[:]
                new_src[i] = mutated
                open(path, "w").write("\n".join(new_src))
                d = subprocess.run(["git", "-C", REPO, "diff"], capture_output=True, text=True).stdout
                open(path, "w").write("\n".join(src))
                mid = "am_" + hashlib.sha1((f + str(i) + name + str(a)).encode()).hexdigest()[:8]
                if mid in seen:
                    continue
                open(f"{PD}/{mid}.patch", "w").write(d)
                index.append((mid, f, str(i + 1), name, l.strip()[:110], mutated.strip()[:110]))
    assert subprocess.run(["git", "-C", REPO, "status", "--porcelain", "--untracked-files=no"], capture_output=True, text=True).stdout == "", "/repo left dirty"
    with open(OUT + "/index" + batch + ".tsv", "w") as o:
        for r in index:
            o.write("\t".join(r) + "\n")
    print(len(index), "mutants written")

if __name__ == "__main__":
    main()
